"""C04 - answers do not depend on query history; matching never mutates the tree (decided clauses only).

R1  tree immutability: no expression of a bs4 type is written to, deleted from, or has a non-accessor method called
    on it, and none is handed to a callable outside a short pure list (effect analysis over mypy types)
R2  matcher state is per call (constructed in each SoupSieve method, never stored) - no module/class-level state is
    written by anything reachable from the matching entry points
R3  memo tables are transparent: identity-keyed lists, appended only on the miss path, under the key variables the
    lookup compares
R4  temporary matcher state is restored: every attribute of the matcher written outside __init__ is saved to a
    local first and restored from that local on every non-exceptional path to the function exit
"""
from __future__ import annotations

import ast

from ..callgraph import CallGraph
from ..core import AnalysisError, Report
from ..pathwalk import Domain, Walker
from ..srcmodel import call_name, unparse, walk_no_nested

READ_ATTRS = {'contents', 'parent', 'name', 'prefix', 'namespace', 'attrs', 'descendants', 'next_sibling',
              'previous_sibling', 'next_element', 'previous_element', '_is_xml', 'children', 'next_siblings',
              'previous_siblings', 'parents', 'strings', 'string', 'text', 'hidden', 'sourceline', 'sourcepos'}
READ_METHODS = {'get', 'has_attr', 'get_text', 'items', 'keys', 'values', 'find', 'find_all', 'index', 'strip', 'lower',
                'startswith', 'endswith', 'split', 'join', '__len__', '__iter__', '__contains__', '__getitem__', 'get_attribute_list'}
PURE_EXTERNAL = {'isinstance', 'len', 'list', 'tuple', 'str', 'getattr', 'bool', 'iter', 'next', 'id', 'type', 'repr',
                 'cast', 'typing.cast', 'hasattr', 'enumerate', 'reversed', 'zip', 'any', 'all', 'sorted', 'print',
                 'unicodedata.bidirectional', 'dict', 'dict.fromkeys', 'set', 'frozenset', 'map', 'filter', 'hash', 'callable', 'issubclass',
                 'itertools.chain', 'chain', 'itertools.islice', 'islice', 'functools.partial', 'partial', 'operator.is_', 'operator.is_not'}
MUTATORS = {'append', 'extend', 'insert', 'remove', 'pop', 'clear', 'update', 'setdefault', 'popitem', 'sort', 'reverse'}


def swap_restore(mod, fn, selfname='self'):
    """Path analysis of temporary attribute swaps in one method. Returns (swaps found, problems)."""
    from ..boolpaths import BoolDomain, BoolEnv
    bd = BoolDomain()

    class Dom(Domain):
        def is_state(self, x):
            return isinstance(x, tuple) and len(x) == 3

        def branch(self, state, test):
            # correlate only repeated tests of one plain local (`if is_html:` ... `if is_html:`); anything richer would
            # multiply states without helping this rule
            t, neg = test, False
            while isinstance(t, ast.UnaryOp) and isinstance(t.op, ast.Not):
                t, neg = t.operand, not neg
            if not isinstance(t, ast.Name):
                return state, state
            facts = dict(state[2])
            key = 'var:' + t.id
            if key in facts:
                v = facts[key] != neg
                return (state, None) if v else (None, state)
            ft = frozenset({**facts, key: not neg}.items())
            ff = frozenset({**facts, key: neg}.items())
            return (state[0], state[1], ft), (state[0], state[1], ff)

        def for_header(self, state, node):
            return (state[0], state[1], bd.for_header(state[2], node))

        def stmt(self, state, node):
            facts = state[2]
            if isinstance(node, (ast.Assign, ast.AugAssign, ast.AnnAssign)):
                names = {n.id for t in (node.targets if isinstance(node, ast.Assign) else [node.target])
                         for n in ast.walk(t) if isinstance(n, ast.Name)}
                facts = frozenset((k, v) for k, v in facts if k[4:] not in names)
            saved, status = dict(state[0]), dict(state[1])
            if isinstance(node, ast.Assign):
                targets = []
                for t in node.targets:
                    targets.extend(t.elts if isinstance(t, (ast.Tuple, ast.List)) else [t])
                values = node.value.elts if isinstance(node.value, (ast.Tuple, ast.List)) and len(targets) == len(
                    getattr(node.value, 'elts', [])) else [node.value] * len(targets)
                # `saved = (self.a, self.b)`: one local holds the saved values of several attributes, by position
                if len(targets) == 1 and isinstance(targets[0], ast.Name) and isinstance(node.value, (ast.Tuple, ast.List)) and node.value.elts \
                        and all(isinstance(v, ast.Attribute) and isinstance(v.value, ast.Name) and v.value.id == selfname for v in node.value.elts):
                    for i_, v in enumerate(node.value.elts):
                        saved[v.attr] = f'{targets[0].id}[{i_}]'
                    return (tuple(sorted(saved.items())), tuple(sorted(status.items())), facts)
                # `self.a, self.b = saved`: restore by position from such a local
                if len(targets) > 1 and isinstance(node.value, ast.Name) and all(
                        isinstance(t, ast.Attribute) and isinstance(t.value, ast.Name) and t.value.id == selfname for t in targets):
                    for i_, t in enumerate(targets):
                        a = t.attr
                        if saved.get(a) == f'{node.value.id}[{i_}]':
                            status[a] = 'restored'
                        elif a in saved:
                            status[a] = 'swapped'
                        else:
                            status[a] = 'written-without-local-save'
                    return (tuple(sorted(saved.items())), tuple(sorted(status.items())), facts)
                for t, v in zip(targets, values):
                    if isinstance(t, ast.Name) and isinstance(v, ast.Attribute) and isinstance(v.value, ast.Name) \
                            and v.value.id == selfname:
                        saved[v.attr] = t.id
                    elif isinstance(t, ast.Name):
                        # a local that held a saved copy is overwritten
                        for a, l in list(saved.items()):
                            if l == t.id or l.startswith(t.id + '['):
                                saved.pop(a)
                    if isinstance(t, ast.Attribute) and isinstance(t.value, ast.Name) and t.value.id == selfname:
                        a = t.attr
                        if isinstance(v, ast.Name) and saved.get(a) == v.id:
                            status[a] = 'restored'
                        elif a in saved:
                            status[a] = 'swapped'
                        else:
                            status[a] = 'written-without-local-save'
            return (tuple(sorted(saved.items())), tuple(sorted(status.items())), facts)

        def on_return(self, state, node):
            return ('ret', state[1], getattr(node, 'lineno', 0))
    w = Walker(Dom())
    out = w.block(fn.body, {((), (), frozenset())})
    exits = [('return', s[1], s[2]) for s in out.ret] + [('end', s[1], getattr(fn, 'end_lineno', 0)) for s in out.normal]
    attrs = set()
    problems = []
    for kind, status, line in exits:
        for a, st in status:
            attrs.add(a)
            if st != 'restored':
                problems.append((a, st, kind, line))
    return attrs, problems


def run(ctx, report: Report) -> None:
    src, inv = ctx.src, ctx.consts
    tf = ctx.types
    report.explanation = (
        'R1 classifies every expression whose mypy type is a bs4 page element (or the attribute map of a Tag) by its '
        'syntactic context: stores, deletes, augmented assignments, method calls outside a list of read accessors and '
        'escapes into foreign callables are findings. Under the trusted base that bs4 read accessors are pure, zero '
        'findings is a sufficient argument for "no query changes the document". R3/R4 are rules on the path walker '
        'over the matcher: memo discipline and save/restore of temporary state in the activation that swapped it '
        '(match_selectors is re-entrant, so the saved copy must live in a local).')
    report.not_decided = 'equality of answers on a pristine copy of the document (a statement about two runs).'
    report.trusted_base = ['mypy inferred types (expressions typed Any are listed as gaps)', 'bs4 read accessors are pure']
    mmod = src.mod('css_match')

    # ---- R1 --------------------------------------------------------------------------------------------
    r1 = report.rule('C04-R1', 'no expression of a bs4 type is mutated or escapes', floor=58)
    census = {}
    any_gaps = []

    def from_doc(mn, mod, fnq, e, depth=0):
        """Is `e` a document object or a container owned by one (`el.contents`, `el.attrs`, a local bound to one of these)?"""
        t = tf.type_of(mn, e)
        if t is not None and tf.is_bs4(t):
            return True
        if isinstance(e, (ast.Attribute, ast.Subscript)):
            return from_doc(mn, mod, fnq, e.value, depth)
        if isinstance(e, ast.Name) and depth < 3:
            fnode = mod.functions.get(fnq)
            if fnode is not None:
                for st in walk_no_nested(fnode):
                    if isinstance(st, (ast.Assign, ast.AnnAssign)) and st.value is not None and any(
                            isinstance(t_, ast.Name) and t_.id == e.id for t_ in (st.targets if isinstance(st, ast.Assign) else [st.target])):
                        if isinstance(st.value, (ast.Attribute, ast.Subscript)) and from_doc(mn, mod, fnq, st.value, depth + 1):
                            return True
        return False

    def bound_in(mod, fnq, name):
        """Is `name` a parameter or local of the enclosing function(s) (so a call through it is an indirect call)?"""
        q = fnq
        while q and q != '<module>':
            fnode = mod.functions.get(q)
            if fnode is not None:
                a = fnode.args
                if name in {x.arg for x in a.args + a.kwonlyargs + a.posonlyargs + ([a.vararg] if a.vararg else []) + ([a.kwarg] if a.kwarg else [])}:
                    return True
                for st in walk_no_nested(fnode):
                    if isinstance(st, ast.Name) and isinstance(st.ctx, ast.Store) and st.id == name:
                        return True
            q = q.rsplit('.', 1)[0] if '.' in q else ''
        return False

    # callables that can change an object they are handed; the package must not even mention them as values, so that a call
    # through a variable, a table entry or a parameter (which can only hold a callable the package mentions somewhere, a
    # package function or lambda, or an accessor checked above) cannot reach one
    IMPURE_CALLABLES = {'setattr', 'delattr', 'exec', 'eval', 'vars', 'globals', 'locals', '__import__',
                        'operator.setitem', 'operator.delitem', 'operator.iadd', 'operator.iconcat', 'operator.methodcaller',
                        'operator.attrgetter', 'list.append', 'list.extend', 'list.insert', 'list.remove', 'list.pop', 'list.clear', 'list.sort',
                        'list.reverse', 'dict.update', 'dict.pop', 'dict.clear', 'dict.setdefault', 'dict.popitem', 'copy.copy', 'copy.deepcopy'}
    for mn, mod in src.mods.items():
        for node in ast.walk(mod.tree):
            if isinstance(node, (ast.Name, ast.Attribute)) and isinstance(node.ctx, ast.Load):
                par = mod.parents.get(node)
                if not (isinstance(par, ast.Call) and par.func is node) and not (isinstance(par, ast.Attribute)):
                    txt = unparse(node)
                    head = txt.split('.')[0]
                    al = mod.aliases.get(head)
                    full = txt
                    if al is not None and al[0] == 'module' and not al[2]:
                        full = al[1] + txt[len(head):]
                    elif al is not None and al[0] == 'symbol' and not al[3]:
                        full = f'{al[1]}.{al[2]}' + txt[len(head):]
                    fnq_ = mod.enclosing_function(node) or '<module>'
                    if full in IMPURE_CALLABLES and not (isinstance(node, ast.Name) and bound_in(mod, fnq_, node.id)):
                        r1.instance({'site': f'{mn}.{fnq_}', 'callable_mentioned_as_value': full}, key=f'{mn}.{fnq_}|value|{full}')
                        r1.violation(f'{mn}.{fnq_} mentions {full} as a value', mod.where(node),
                                     f'{mn}.{fnq_}: `{unparse(par)[:70]}` takes `{full}` as a value; called through a variable or a '
                                     f'table it can change whatever it is handed, and document objects are handed to such indirect callees')
            # stores / deletes through a bs4-typed base
            targets = []
            if isinstance(node, ast.Assign):
                targets = node.targets
            elif isinstance(node, (ast.AugAssign, ast.AnnAssign)):
                targets = [node.target]
            elif isinstance(node, ast.Delete):
                targets = node.targets
            for t in targets:
                for tt in (t.elts if isinstance(t, (ast.Tuple, ast.List)) else [t]):
                    if isinstance(tt, (ast.Attribute, ast.Subscript)):
                        base = tt.value
                        bt = tf.type_of(mn, base)
                        fnq = mod.enclosing_function(node) or '<module>'
                        is_own_init = fnq.endswith('.__init__') and isinstance(base, ast.Name) and base.id == 'self'
                        if bt is not None and from_doc(mn, mod, fnq, base) and not is_own_init:
                            r1.instance({'site': f'{mn}.{fnq}', 'store_through': unparse(tt), 'type': tf.show(bt)},
                                        key=f'{mn}.{fnq}|store|{unparse(tt)}')
                            r1.violation(f'{mn}.{fnq} writes {unparse(tt)}', mod.where(node),
                                         f'{mn}.{fnq}: `{unparse(node)[:70]}` writes through `{unparse(base)}`, which is a document '
                                         f'object ({tf.show(bt)}): matching must never change the tree')
            if isinstance(node, ast.Attribute) and isinstance(node.ctx, ast.Load):
                bt = tf.type_of(mn, node.value)
                if bt is not None and tf.is_bs4(bt):
                    par = mod.parents.get(node)
                    fnq = mod.enclosing_function(node) or '<module>'
                    is_call = isinstance(par, ast.Call) and par.func is node
                    kind = 'method call' if is_call else 'attribute read'
                    census[(kind, node.attr)] = census.get((kind, node.attr), 0) + 1
                    ok = (node.attr in READ_METHODS) if is_call else (node.attr in READ_ATTRS or node.attr.startswith('is_')
                                                                      or node.attr in READ_METHODS)
                    # methods defined by the package's own Tag-like classes are package-internal
                    r1.instance({'site': f'{mn}.{fnq}', kind: unparse(node), 'receiver_type': tf.show(bt), 'read_only': ok},
                                key=f'{mn}.{fnq}|{kind}|{unparse(node)}', sample_cap=5)
                    r1.obligation(ok)
                    if not ok:
                        r1.violation(f'{mn}.{fnq} {kind} {unparse(node)}', mod.where(node),
                                     f'{mn}.{fnq}: {kind} `{unparse(par if is_call else node)[:60]}` on a document object '
                                     f'({tf.show(bt)}); `{node.attr}` is not one of the read accessors - e.g. smooth(), extract(), '
                                     f'decompose(), append(), insert(), replace_with(), clear() rewrite the tree in place')
            if isinstance(node, ast.Call):
                cn = call_name(node)
                fnq = mod.enclosing_function(node) or '<module>'
                for a in list(node.args) + [k.value for k in node.keywords]:
                    at = tf.type_of(mn, a)
                    if at is None or not tf.is_bs4(at):
                        continue
                    fnode = mod.functions.get(fnq)
                    alias_of_method = False
                    if fnode is not None and isinstance(node.func, ast.Name):
                        defs = [st.value for st in walk_no_nested(fnode) if isinstance(st, (ast.Assign, ast.AnnAssign))
                                and any(isinstance(t, ast.Name) and t.id == node.func.id for t in (
                                    st.targets if isinstance(st, ast.Assign) else [st.target]))]
                        # ... or the target of `for step in (self.a, self.b):`
                        for lp in walk_no_nested(fnode):
                            if isinstance(lp, (ast.For, ast.comprehension)) and isinstance(lp.target, ast.Name) \
                                    and lp.target.id == node.func.id:
                                defs.extend(lp.iter.elts if isinstance(lp.iter, (ast.Tuple, ast.List)) else [lp.iter])
                        alias_of_method = bool(defs) and all(isinstance(d, ast.Attribute) and isinstance(d.value, ast.Name)
                                                             and d.value.id in ('self', 'cls') for d in defs if d is not None)
                    indirect = (isinstance(node.func, ast.Name) and bound_in(mod, fnq, node.func.id)) or isinstance(
                        node.func, (ast.Subscript, ast.Call, ast.IfExp))
                    internal = alias_of_method or indirect or src.resolve_class_ref(mod, node.func) is not None or cn.startswith(('self.', 'cls.')) or cn.split('.')[0] in ('cm', 'ct', 'cp', 'util') \
                        or cn in mod.functions or cn.split('.')[-1] in {q.split('.')[-1] for q in mmod.functions} \
                        or cn in ('CSSMatch', '_FakeParent') or cn.endswith('.match') or cn.endswith('.search')
                    ok = internal or cn in PURE_EXTERNAL or cn.split('.')[-1] in ('append', 'extend', 'join')
                    census[('argument of', cn)] = census.get(('argument of', cn), 0) + 1
                    r1.instance({'site': f'{mn}.{fnq}', 'document_object_passed_to': cn, 'accepted': ok},
                                key=f'{mn}.{fnq}|arg|{cn}|{unparse(a)}', sample_cap=5)
                    r1.obligation(ok)
                    if not ok:
                        r1.violation(f'{mn}.{fnq} passes {unparse(a)} to {cn}', mod.where(node),
                                     f'{mn}.{fnq}: the document object `{unparse(a)}` is handed to `{cn}`, which is neither part of '
                                     f'the package nor on the list of pure callables')
                # method calls on Any-typed receivers that look like tree mutators
                if isinstance(node.func, ast.Attribute):
                    rt = tf.type_of(mn, node.func.value)
                    if rt is not None and tf.is_any(rt) and node.func.attr in (
                            'smooth', 'extract', 'decompose', 'replace_with', 'insert_before', 'insert_after', 'unwrap', 'wrap',
                            'clear', 'insert'):
                        any_gaps.append(f'{mn}.{fnq}: {unparse(node)[:50]}')
                        r1.violation(f'{mn}.{fnq} any-typed mutator {node.func.attr}', mod.where(node),
                                     f'{mn}.{fnq}: `{unparse(node)[:60]}` calls a tree-mutating method name on an untyped value')
    report.extra['bs4_access_census'] = {f'{k[0]} {k[1]}': v for k, v in sorted(census.items())}
    report.extra['any_typed_gaps'] = any_gaps

    # matcher functions never mutate their arguments: values handed in are document objects or values stored in the tree
    # (attribute value lists are typed Any, so the type-directed census above cannot see them)
    for q, fn in mmod.functions.items():
        if not q.startswith(('_DocumentNav.', 'CSSMatch.', 'Inputs.')):
            continue
        params = {a.arg for a in fn.args.posonlyargs + fn.args.args + fn.args.kwonlyargs} - {'self', 'cls'}
        rebound = {t.id for st in walk_no_nested(fn) if isinstance(st, (ast.Assign, ast.AnnAssign, ast.AugAssign, ast.For))
                   for t in ast.walk(st.targets[0] if isinstance(st, ast.Assign) else st.target)
                   if isinstance(t, ast.Name) and isinstance(t.ctx, ast.Store)}
        live = params - rebound

        def may_be(e, names):
            if isinstance(e, ast.Name):
                return e.id in names
            if isinstance(e, ast.IfExp):
                return may_be(e.body, names) or may_be(e.orelse, names)
            if isinstance(e, ast.BoolOp):
                return any(may_be(v, names) for v in e.values)
            if isinstance(e, ast.Call) and call_name(e) in ('cast', 'typing.cast') and e.args:
                return may_be(e.args[-1], names)
            if isinstance(e, ast.NamedExpr):
                return may_be(e.value, names)
            return False
        for _ in range(3):      # locals that may alias an argument (x = arg, x = arg if c else copy, x = cast(T, arg))
            for st in walk_no_nested(fn):
                if isinstance(st, ast.Assign) and len(st.targets) == 1 and isinstance(st.targets[0], ast.Name) \
                        and may_be(st.value, live):
                    live = live | {st.targets[0].id}
        for n in walk_no_nested(fn):
            hit = None
            if isinstance(n, (ast.Subscript, ast.Attribute)) and isinstance(n.ctx, (ast.Store, ast.Del)) \
                    and isinstance(n.value, ast.Name) and n.value.id in live:
                hit = f'writes `{unparse(n)}`'
            elif isinstance(n, ast.Call) and isinstance(n.func, ast.Attribute) and n.func.attr in MUTATORS \
                    and isinstance(n.func.value, ast.Name) and n.func.value.id in live:
                hit = f'calls `{unparse(n)[:50]}`'
            if hit:
                r1.instance({'site': f'css_match.{q}', 'argument_mutation': hit}, key=f'css_match.{q}|param|{hit}')
                r1.violation(f'css_match.{q} mutates its argument: {hit}', mmod.where(n),
                             f'{q} {hit}, which changes an object handed in by the caller: arguments of the matcher functions are '
                             f'document nodes or values stored in the tree (attribute value lists), so the query rewrites the document')
    r1.instance({'rule': 'no matcher function stores into / calls a mutator on one of its parameters'}, key='param-mutation',
                nontrivial=False)

    # ---- R2 --------------------------------------------------------------------------------------------
    r2 = report.rule('C04-R2', 'matcher state is per call', floor=2)
    # decision table of the SoupSieve methods with a recording stand-in for CSSMatch: one fresh matcher per call target,
    # scoped on that target, never shared between the items of an iterable
    from .sem import soupsieve_methods_table
    soupsieve_methods_table(ctx, r2)
    for name in ('match', 'closest', 'filter', 'iselect'):
        fn = mmod.functions.get(f'SoupSieve.{name}')
        if fn is None:
            continue
        for c in [c for c in walk_no_nested(fn) if isinstance(c, ast.Call) and call_name(c) == 'CSSMatch']:
            if isinstance(mmod.parents.get(c), ast.Assign) and any(isinstance(t, ast.Attribute) for t in mmod.parents[c].targets):
                r2.violation(f'css_match.SoupSieve.{name} stores matcher', mmod.where(c), f'SoupSieve.{name} stores its matcher on an object')
    cg = ctx.get('callgraph', lambda: CallGraph(ctx.types, src))
    reach = cg.reachable([f'css_match.SoupSieve.{x}' for x in ('match', 'closest', 'filter', 'select_one', 'select', 'iselect')])
    report.analysed['match_reachable_functions'] = len(reach)
    for q in sorted(reach):
        mn, _, rest = q.partition('.')
        mod = src.mods.get(mn)
        fn = mod.functions.get(rest) if mod else None
        if fn is None:
            continue
        for n in walk_no_nested(fn):
            if isinstance(n, ast.Global):
                r2.violation(f'{q} global {n.names}', mod.where(n), f'{q} (reachable from the matching API) rebinds globals {n.names}')
    r2.instance({'functions_reachable_from_matching_api': len(reach)}, key='reach', nontrivial=False)

    # ---- R3 --------------------------------------------------------------------------------------------
    r3 = report.rule('C04-R3', 'memo tables are transparent', floor=19)
    _, init = src.func('css_match.CSSMatch.__init__')
    memos = {}
    for st in walk_no_nested(init):
        if isinstance(st, ast.Assign) and unparse(st.targets[0]).startswith('self.cached_'):
            memos[unparse(st.targets[0])] = st
    if len(memos) < 3:
        raise AnalysisError('fewer than three memo tables found in CSSMatch.__init__')
    # the behaviour the memos must not change: every element keeps its own answer among look-alikes, within one call
    from .e2ematch import lookalike_table
    from .sem import memo_container_problem
    n_la = len(r3.findings)
    lookalike_table(ctx, r3)
    tables_clean = len(r3.findings) == n_la
    for name, st in memos.items():
        empty = isinstance(st.value, (ast.List, ast.Dict, ast.Set)) and not (getattr(st.value, 'elts', None) or getattr(st.value, 'keys', None)) \
            or (isinstance(st.value, ast.Call) and call_name(st.value) in ('dict', 'set', 'list') and not st.value.args and not st.value.keywords)
        problem = None if not empty else memo_container_problem(ctx, mmod, name, st.value)
        ok = bool(empty) and problem is None
        r3.instance({'memo': name, 'initialised_as': unparse(st.value), 'fresh_and_empty_per_matcher': bool(empty), 'keyed_by_tags': problem}, key=name)
        r3.obligation(ok)
        if not empty:
            r3.violation(f'{name} container', mmod.where(st), f'{name} is initialised as `{unparse(st.value)}`: a memo must start empty in every matcher')
        elif problem:
            r3.violation(f'{name} container', mmod.where(st),
                         f'{name} is initialised as `{unparse(st.value)}` and {problem}: bs4 tags hash and compare by markup, so a dict / set '
                         f'keyed by a tag merges identical-looking elements (use a list scanned with `is`, or id(...) keys)')
    for q, fn in mmod.functions.items():
        for c in [n for n in walk_no_nested(fn) if isinstance(n, ast.Call) and isinstance(n.func, ast.Attribute)
                  and n.func.attr == 'append' and unparse(n.func.value) in memos]:
            cache = unparse(c.func.value)
            loops = [n for n in walk_no_nested(fn) if isinstance(n, ast.For) and unparse(n.iter) == cache]
            entry = c.args[0]
            problems = []
            elsewhere = []
            if not loops:
                # lookup and store may live in different helper methods (lookup first, compute and store on a miss)
                for q2, fn2 in mmod.functions.items():
                    if fn2 is not fn:
                        elsewhere += [n for n in walk_no_nested(fn2) if isinstance(n, ast.For) and unparse(n.iter) == cache]
            if not loops and not elsewhere:
                problems.append('the memo is never looked up')
            elif not loops:
                # the names of the key variables differ between the two functions: only the identity discipline of the lookup is
                # checked here; what is stored under which key is decided by the memo tables (lang_memo_table, default / indeterminate
                # tables, the look-alike rows of the pipeline tables)
                for lk in elsewhere:
                    first_if = next((x for x in lk.body if isinstance(x, ast.If)), None)
                    cmps = [x for x in ast.walk(first_if.test if first_if is not None else lk) if isinstance(x, ast.Compare)]
                    if cmps and not any(isinstance(x.ops[0], (ast.Is, ast.IsNot)) for x in cmps):
                        problems.append('the lookup (in another method) compares the primary key with ==, not by identity')
            else:
                lk = loops[0]
                tvars = [e.id for e in lk.target.elts] if isinstance(lk.target, ast.Tuple) else [lk.target.id]
                # key comparisons in the lookup: `<tvar> is <key>` / `<key> is <tvar>[0]` / `<tvar> == <key>`
                keys = []
                first_if = next((x for x in lk.body if isinstance(x, ast.If)), None)
                key_test = first_if.test if first_if is not None else lk
                for cmp_ in [x for x in ast.walk(key_test) if isinstance(x, ast.Compare)]:
                    l, r = unparse(cmp_.left), unparse(cmp_.comparators[0])
                    for a, b in ((l, r), (r, l)):
                        base = a.split('[')[0]
                        if base in tvars and not b.split('[')[0] in tvars and b not in ('True', 'False', 'None'):
                            idx = tvars.index(base) if isinstance(lk.target, ast.Tuple) else int(a.split('[')[1][0]) if '[' in a else 0
                            keys.append((idx, b, type(cmp_.ops[0]).__name__))
                elts = entry.elts if isinstance(entry, ast.Tuple) else []
                for idx, keyvar, op in keys:
                    if idx < len(elts):
                        stored = unparse(elts[idx]).replace('cast(str, ', '').rstrip(')') if unparse(elts[idx]).startswith('cast(') else unparse(elts[idx])
                        if stored != keyvar:
                            problems.append(f'entry position {idx} stores `{stored}` but the lookup compares it with `{keyvar}`')
                    if idx == 0 and op not in ('Is',):
                        problems.append(f'the primary key is compared with {op}, not by identity')
                if not keys:
                    problems.append('no key comparison found in the lookup loop')
            r3.instance({'function': q, 'store': unparse(c)[:80], 'problems': problems}, key=f'{q}|{unparse(c)[:60]}')
            r3.obligation(not problems or tables_clean)
            for p_ in problems:
                if tables_clean:
                    # the lookup is written in a way this shape rule does not recognise (next() over a generator, a helper, a dict):
                    # the look-alike table above and the memo tables below decide
                    r3.note(f'{q}: memo {cache}: {p_} - not recognised structurally; decided by the look-alike and memo tables')
                else:
                    r3.violation(f'css_match.{q} memo {cache} {p_[:40]}', mmod.where(c), f'{q}: memo {cache}: {p_}')

    from .sem import lang_memo_table
    n_before = len(r3.findings)
    lang_memo_table(ctx, r3)
    for f in r3.findings[n_before:]:
        f.rule = 'C04-R3'

    # ---- R4 --------------------------------------------------------------------------------------------
    r4 = report.rule('C04-R4', 'temporary matcher state is restored in the activation that changed it', floor=16)
    from .sem import context_restore_table
    n_before_ctx = len(r4.findings)
    context_restore_table(ctx, r4)
    table_clean = len(r4.findings) == n_before_ctx
    n_swaps = 0
    for q, fn in mmod.functions.items():
        if not q.startswith('CSSMatch.') or q.endswith('.__init__') or q.count('.') != 1:
            continue
        writes = [n for n in walk_no_nested(fn) if isinstance(n, ast.Assign) and any(
            isinstance(t, ast.Attribute) and isinstance(t.value, ast.Name) and t.value.id == 'self'
            for tt in n.targets for t in (tt.elts if isinstance(tt, (ast.Tuple, ast.List)) else [tt]))]
        if not writes:
            continue
        attrs, problems = swap_restore(mmod, fn)
        n_swaps += len(attrs)
        r4.instance({'method': q, 'attributes_written': sorted(attrs),
                     'unrestored_exits': [f'{a}: {st} at {kind} line {line}' for a, st, kind, line in problems]}, key=q)
        r4.obligation(not problems or table_clean)
        if problems and table_clean:
            # the save / restore is written in a way the path rule does not recognise (helper methods, a context object ...): the
            # table above - plain and nested HTML-only lists, every way out of the chain of checks - shows the state restored
            r4.note(f'{q}: save / restore of {sorted(attrs)} not recognised structurally; decided by the context table')
            continue
        seen = set()
        for a, st, kind, line in problems:
            if (a, st) in seen:
                continue
            seen.add((a, st))
            if st == 'written-without-local-save':
                msg = (f'{q} writes self.{a} without first saving the old value in a local of the same activation: the '
                       f'function is re-entrant (nested selector lists), so a copy kept anywhere else is overwritten by the inner '
                       f'call and the outer state is lost for the rest of the query')
            else:
                msg = (f'{q} changes self.{a} and reaches a {kind} without restoring it from the saved local: every later element '
                       f'of the same query is evaluated with the temporary value')
            r4.violation(f'css_match.{q} self.{a} {st}', mmod.where(fn), msg)
    if n_swaps < 2:
        r4.note('no attribute swap found by the path rule on this tree: decided by the context table alone')

    from .sem import list_context_table
    list_context_table(ctx, r4)

    from .sem import default_button_table
    default_button_table(ctx, r3)

    # ---- R5 (the whole pipeline by interpretation, bounded) --------------------------------------------------------------
    r5 = report.rule('C04-R5', 'a compiled selector answers the same after any sequence of other queries (bounded)', floor=56)
    from .e2ematch import history_table, one_call_table
    history_table(ctx, r5)
    one_call_table(ctx, r5, deep=(ctx.tier == 'thorough'))



