"""C13 - :lang() is RFC 4647 extended filtering over the inherited language (decided clauses only).

R1  sentinel consistency of the ancestor walk: the "no language found yet" sentinel None is tested by identity, never
    by truthiness (the empty string is a legitimate language)
R2  the <meta> memo is transparent: a miss is stored as a miss, a hit assigns the looked-up variable, the key is the
    top of the walk that the memoised search starts from
R3  the walk and the <meta> search stay inside the element's own document (iframe boundary arguments)
R4  the range list is tokenised and decoded like its sibling grammar (value list tiling, decode once)
R5  the lang / xml:lang choice is made per ancestor (the namespace test is applied to the node being inspected)
"""
from __future__ import annotations

import ast

from .. import rx
from ..core import AnalysisError, Report
from ..pathwalk import Domain, Walker
from ..srcmodel import call_name, unparse, walk_no_nested
from ..strflow import StrFlow


from .sem import fresh_memo  # noqa: E402


def run(ctx, report: Report) -> None:
    src, inv = ctx.src, ctx.consts
    report.explanation = (
        'Rules over match_lang (the language determination) and parse_pseudo_lang: a sentinel-consistency rule over '
        'mypy types (a variable with a None sentinel and a str-typed definition is never tested by bare truthiness), '
        'memo-transparency rules for the <meta> cache evaluated on the path walker, iframe-boundary arguments, '
        'grammar agreement with RE_VALUES and single decoding via the string-provenance analysis.')
    report.not_decided = ('RFC 4647 extended filtering itself (extended_language_filter, RE_WILD_STRIP): an algorithm over '
                          'subtag sequences of unbounded length; the known trailing "-*" defect lives in its arithmetic and '
                          'is out of reach of a sound static argument here.')
    report.trusted_base = ['mypy inferred types', 'ast']
    mmod, fn = src.func('css_match.CSSMatch.match_lang')
    tf = ctx.types

    # ---- R1 ----------------------------------------------------------------------------------------------
    r1 = report.rule('C13-R1', 'the None sentinel of the ancestor walk is tested by identity', floor=1)
    # variables assigned both None and a str-typed value
    none_vars, str_vars = set(), set()
    for st in walk_no_nested(fn):
        if isinstance(st, ast.Assign) and len(st.targets) == 1 and isinstance(st.targets[0], ast.Name):
            nm = st.targets[0].id
            if isinstance(st.value, ast.Constant) and st.value.value is None:
                none_vars.add(nm)
            else:
                t = tf.type_of('css_match', st.value)
                if t is not None and ('builtins.str' in tf.instance_names(t) or 'typing.Sequence' in tf.instance_names(t)):
                    str_vars.add(nm)
    # only the variable(s) the ancestor walk itself fills from lang attributes: there the empty string is a legitimate
    # value ("explicitly unknown"); the <meta> pragma, by contrast, ignores an empty content attribute (HTML Standard)
    walk = [n for n in walk_no_nested(fn) if isinstance(n, ast.While) and any(
        isinstance(c, ast.Call) and call_name(c).endswith('get_parent') for c in ast.walk(n))]
    in_walk = set()
    for wl_ in walk:
        for st in ast.walk(wl_):
            if isinstance(st, ast.Assign) and isinstance(st.targets[0], ast.Name):
                in_walk.add(st.targets[0].id)
    sentinels = none_vars & str_vars & in_walk
    if not sentinels:
        r1.note('match_lang holds no variable with a None sentinel and a str definition (the walk lives elsewhere): the truthiness rule has '
                'nothing to look at; lang="" is decided by the language tables (R6) and the pipeline rows (R8)')
        r1.instance({'sentinel_variables': []}, key='no-sentinel')

    def truthiness_uses(test, names):
        """Names used by bare truthiness inside a condition."""
        out = []

        def visit(e):
            if isinstance(e, ast.BoolOp):
                for v in e.values:
                    visit(v)
            elif isinstance(e, ast.UnaryOp) and isinstance(e.op, ast.Not):
                visit(e.operand)
            elif isinstance(e, ast.Name) and e.id in names:
                out.append(e.id)
        visit(test)
        return out
    for n in walk_no_nested(fn):
        test = n.test if isinstance(n, (ast.If, ast.While, ast.IfExp)) else None
        if test is None:
            continue
        mentioned = {x.id for x in ast.walk(test) if isinstance(x, ast.Name)} & sentinels
        if not mentioned:
            continue
        bad = truthiness_uses(test, sentinels)
        r1.instance({'test': unparse(test)[:80], 'sentinel_variables': sorted(mentioned), 'truthiness_uses': bad},
                    key=unparse(test))
        r1.obligation(not bad)
        for b in bad:
            r1.violation(f'match_lang truthiness {b} in {unparse(test)[:50]}', mmod.where(n),
                         f'match_lang tests `{b}` by truthiness in `{unparse(test)[:70]}`; `{b}` is None for "nothing found" but '
                         f'may legitimately be the empty string (lang=""), which this test confuses with "nothing found"')

    r2 = report.rule('C13-R2', 'the <meta> memo is transparent', floor=2)
    from .sem import lang_memo_table
    lang_memo_table(ctx, r2)

    # ---- R3 ----------------------------------------------------------------------------------------------
    r3 = report.rule('C13-R3', 'the walk stays inside the element\'s own document', floor=1)
    from .sem import iframe_policy
    from ..interp import Obj
    from ..tables import el_obj
    iframe_policy(ctx, r3, 'css_match.CSSMatch.match_lang',
                  lambda: [el_obj('e'), (Obj(_name='SelectorLang', languages=('en',), __iter__=['en'], __len__=1),)],
                  lambda html, restrict: html,
                  'the language of an element of an HTML document never comes from outside an iframe boundary (XML has no such boundary)',
                  accessors=('get_parent', 'get_tag_children', 'get_children', 'get_contents', 'get_tag_descendants', 'get_descendants'),
                  self_fields={'cached_meta_lang': fresh_memo(ctx, 'cached_meta_lang'), 'root': el_obj('html'), 'has_html_namespace': False}, first_only=False)

    # ---- R4 ----------------------------------------------------------------------------------------------
    r4 = report.rule('C13-R4', 'range list tokenised and decoded like its sibling', floor=1)
    pmod, pl = src.func('css_parser.CSSParser.parse_pseudo_lang')
    flow = StrFlow(src, pmod, pl, 'CSSParser')
    for c in [n for n in walk_no_nested(pl) if isinstance(n, ast.Call) and src.resolve_class_ref(pmod, n.func) == 'css_types.SelectorLang']:
        for p in sorted(flow.prov(c.args[0]), key=lambda p: p.decodes):
            r4.instance({'sink': 'SelectorLang languages', 'source': p.source, 'decodes': p.decodes}, key=f'{p.source}|{p.decodes}')
            r4.obligation(p.decodes == 1)
            if p.decodes != 1:
                r4.violation(f'parse_pseudo_lang decodes={p.decodes}', pmod.where(c),
                             f'parse_pseudo_lang hands ranges decoded {p.decodes} time(s) to the IR (pipeline {list(p.steps)})')
    lang = inv.by_name('token:pseudo_lang')
    vals = inv.by_name('css_parser.RE_VALUES')
    s = rx.System()
    G = s.add('values', lang.pattern, lang.flags, group='values')
    R = s.add('tiles', f'(?:{vals.pattern})+', vals.flags)
    s.freeze()
    w = rx.included(G, R)
    r4.instance({'group': 'token:pseudo_lang:values', 'tiled_by': '(RE_VALUES)+', 'counterexample': w}, key='tile')
    r4.obligation(w is None)
    if w is not None:
        r4.violation(f'pseudo_lang values not tiled {w!r}', lang.where,
                     f'the range list {w!r} accepted by the :lang() token cannot be split by RE_VALUES.finditer')

    # ---- R5 ----------------------------------------------------------------------------------------------
    r5 = report.rule('C13-R5', 'lang vs xml:lang is chosen per ancestor', floor=1)
    walk_loops = [n for n in walk_no_nested(fn) if isinstance(n, ast.While) and any(
        isinstance(c, ast.Call) and call_name(c).endswith('iter_attributes') for c in ast.walk(n))]
    if len(walk_loops) != 1:
        r5.note('the ancestor walk is not a single loop over iter_attributes inside match_lang on this tree: the per-ancestor choice between '
                'lang and xml:lang is decided by the foreign-ancestor rows of the pipeline table (R8)')
        r5.instance({'ancestor_walk_in_match_lang': False}, key='per-ancestor')
        walk_loops = []
    wl = walk_loops[0] if walk_loops else None
    if wl is not None:
        it = [c for c in ast.walk(wl) if isinstance(c, ast.Call) and call_name(c).endswith('iter_attributes')][0]
        node_var = unparse(it.args[0])
        ns_calls = [c for c in ast.walk(wl) if isinstance(c, ast.Call) and call_name(c).endswith('has_html_ns')
                    and [unparse(a) for a in c.args] == [node_var]]
        used = [x for x in ast.walk(wl) if isinstance(x, ast.Name) and x.id == 'has_html_ns' and isinstance(x.ctx, ast.Load)]
        ok = bool(ns_calls)
        r5.instance({'inspected_node': node_var, 'namespace_test_inside_walk_on_that_node': ok}, key='per-ancestor')
        r5.obligation(ok)
        if not ok:
            r5.violation('match_lang namespace test hoisted', mmod.where(wl),
                         f'the ancestor walk inspects the attributes of `{node_var}` but never evaluates has_html_ns({node_var}) inside '
                         f'the loop: the choice between lang and xml:lang is made by another element when the ancestor chain '
                         f'crosses namespaces (SVG/MathML inside HTML)')

    # ---- R6 ----------------------------------------------------------------------------------------------
    r6 = report.rule('C13-R6', 'language of an element: nearest lang attribute, else the content-language pragma (decision table)', floor=4)
    from .sem import lang_logic_table, lang_table
    lang_table(ctx, r6)
    lang_logic_table(ctx, r6)

    # ---- R7 ----------------------------------------------------------------------------------------------
    r7 = report.rule('C13-R7', 'extended_language_filter equals RFC 4647 extended filtering on all pairs over small subtag alphabets (bounded)',
                     floor=1)
    from .sem import lang_filter_table
    lang_filter_table(ctx, r7, deep=ctx.tier == 'thorough')

    # ---- R8 (the whole pipeline by interpretation, bounded) --------------------------------------------------------------
    r8 = report.rule('C13-R8', ':lang() on XHTML / XML / HTML-with-pragma trees (whole pipeline; bounded)', floor=11)
    from .e2ematch import lang_pipeline_table
    lang_pipeline_table(ctx, r8)

    # language ranges: quoting, escapes, comments in the list
    from .e2etab import equivalent_spellings_table
    equivalent_spellings_table(ctx, r8, only=(':lang', 'identifier range'))



