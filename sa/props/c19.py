"""C19 - text pseudo-classes see exactly the character data CSS/HTML count as content (decided clauses only).

R1  node-kind classification is exhaustive with respect to the installed bs4 (every PreformattedString subclass is
    special, no plain-text subclass is) and content = navigable AND NOT special
R2  every text reader is guarded by the classification
R3  own vs descendant shape: descendant text is joined, own text is tested node by node; both stop at iframes in HTML
R4  needles reach the IR undistorted: unquoted by dropping exactly one character at each end, decoded once
R5  :empty uses the CSS whitespace set
"""
from __future__ import annotations

import ast

from .. import boolpaths, rx
from ..bs4facts import Bs4Facts
from ..core import AnalysisError, Report
from ..srcmodel import call_name, unparse, walk_no_nested
from ..strflow import StrFlow


def run(ctx, report: Report) -> None:
    src, inv = ctx.src, ctx.consts
    report.explanation = (
        'Which nodes count as text is decided per node kind: R1 compares the isinstance tuple of is_special_string with '
        'the class hierarchy read from the installed bs4 sources. R2/R3 are shape rules over the text readers. R4 uses '
        'the string-provenance analysis on the :-soup-contains() handler (transformations between the match group and '
        'the IR). R5 is regex language equality with the CSS whitespace class.')
    report.not_decided = ('substring results over all trees; the resume point computation of the iframe skipping in '
                          'get_descendants (navigation over next_element/next_sibling is run-time structure).')
    report.trusted_base = ['installed bs4 sources (class hierarchy of bs4.element)', 'ast']
    mmod = src.mod('css_match')
    facts = Bs4Facts()

    # ---- R1 ----------------------------------------------------------------------------------------------
    r1 = report.rule('C19-R1', 'node-kind classification is exhaustive', floor=2)
    _, iss = src.func('css_match._DocumentNav.is_special_string')
    classes = facts.element_classes()
    pre = facts.subclasses_of('PreformattedString')
    nav = facts.subclasses_of('NavigableString')
    if len(pre) < 5:
        raise AnalysisError('fewer than five PreformattedString subclasses found in the installed bs4')

    def ancestors(c):
        out, todo = set(), [c]
        while todo:
            x = todo.pop()
            for b_ in classes.get(x, []):
                if b_ not in out:
                    out.add(b_)
                    todo.append(b_)
        return out
    # the three predicates, interpreted on one abstract node per string class of the installed bs4 (the node carries the class
    # and all its ancestors, under both spellings bs4.X and bs4.element.X) plus a tag
    from ..interp import Obj, Raised, call_function
    from ..miniev import Unsupported

    def node_of(cls_name):
        chain = {cls_name} | ancestors(cls_name)
        return Obj(_name=f'<{cls_name}>', __isa__=tuple(f'bs4.{c}' for c in chain) + tuple(f'bs4.element.{c}' for c in chain))

    def pred(name, node):
        try:
            return bool(call_function(ctx, f'css_match._DocumentNav.{name}', [node], {}, {}, None))
        except Raised as e:
            return f'raises {e.exc_name}'
        except Unsupported as e:
            raise AnalysisError(f'{name}: outside the evaluable fragment: {e}')
    for c in sorted(nav | {'NavigableString'}):
        if c == 'PreformattedString':
            continue        # the abstract base of the markup constructs: bs4 never instantiates it
        n_ = node_of(c)
        special, content, navig = pred('is_special_string', n_), pred('is_content_string', n_), pred('is_navigable_string', n_)
        is_markup = c in pre
        ok = special is is_markup and content is (not is_markup) and navig is True
        r1.instance({'bs4_class': c, 'markup_construct': is_markup, 'is_special_string': special, 'is_content_string': content,
                     'is_navigable_string': navig}, key=c)
        r1.obligation(ok)
        if not ok:
            r1.violation(f'is_special_string misses {c}' if is_markup else f'is_special_string lists text class {c}', mmod.where(iss),
                         f'bs4.element.{c} is {"a markup construct (derives from PreformattedString: comment/CDATA/PI/declaration/doctype family)" if is_markup else "ordinary text content"}; '
                         f'the predicates answer special={special}, content={content}, navigable={navig}; expected special={is_markup}, '
                         f'content={not is_markup}, navigable=True: otherwise its text is {"counted as" if is_markup else "dropped from"} element '
                         f'content by :-soup-contains, :empty, :dir and :root')
    tag_node = Obj(_name='<Tag>', __isa__=('bs4.Tag', 'bs4.element.Tag', 'bs4.PageElement', 'bs4.element.PageElement'))
    tg = (pred('is_special_string', tag_node), pred('is_content_string', tag_node), pred('is_navigable_string', tag_node))
    r1.instance({'bs4_class': 'Tag', 'special/content/navigable': tg}, key='Tag')
    r1.obligation(tg == (False, False, False))
    if tg != (False, False, False):
        r1.violation('is_content_string admits a node that is not a string', mmod.where(iss),
                     f'for a Tag the predicates answer (special, content, navigable) = {tg}; all three must be False')

    # ---- R2 ----------------------------------------------------------------------------------------------
    r2 = report.rule('C19-R2', 'every text reader is guarded by the classification', floor=293)
    # what each text reader does with nodes that are not content (comment, CDATA, PI, declaration, doctype), as tables on
    # abstract trees: :empty, :root and :dir() here; the two collectors and :-soup-contains below
    from .sem import dir_table, empty_table, root_table
    empty_table(ctx, r2)
    root_table(ctx, r2)
    dir_table(ctx, r2)
    # the two collectors, interpreted on an abstract node sequence: text, special strings ('!...') and a tag
    from ..interp import Obj, Raised, call_function
    from ..miniev import Unsupported
    tag = Obj(_name='tag')
    nodes = ['a', '!comment', tag, 'b', '!cdata', 'c']

    def collect(q, no_iframe):
        seen = {}

        def source(kind):
            def f(el, *a, **kw):
                seen['source'] = kind
                seen['no_iframe'] = kw.get('no_iframe', a[-1] if a and kind == 'contents' else kw.get('no_iframe'))
                seen['tags'] = kw.get('tags', True)
                return list(nodes)
            return f
        stubs = {'css_match._DocumentNav.get_descendants': source('descendants'),
                 'css_match._DocumentNav.get_contents': source('contents'),
                 'css_match._DocumentNav.get_children': source('contents'),
                 'css_match._DocumentNav.is_content_string': lambda n: isinstance(n, str) and not n.startswith('!'),
                 'css_match._DocumentNav.is_special_string': lambda n: isinstance(n, str) and n.startswith('!'),
                 'css_match._DocumentNav.is_navigable_string': lambda n: isinstance(n, str),
                 'css_match._DocumentNav.is_tag': lambda n: n is tag}
        try:
            # the element offers bs4's own text API too; using it bypasses the node-kind classification
            el_ = Obj(_name='el', get_text=lambda *a_, **k_: '<bs4 Tag.get_text()>', text='<bs4 Tag.text>', string='<bs4 Tag.string>',
                      strings=['<bs4 Tag.strings>'], stripped_strings=['<bs4 Tag.stripped_strings>'], contents=list(nodes),
                      children=list(nodes), descendants=list(nodes))
            out = call_function(ctx, f'css_match.{q}', [el_], {'no_iframe': no_iframe}, stubs,
                                Obj(_cls='css_match.CSSMatch', _name='matcher'))
        except Raised as e:
            out = f'raises {e.exc_name}'
        except Unsupported as e:
            raise AnalysisError(f'{q}: outside the evaluable fragment: {e}')
        return out, seen
    for q, want, src_kind in (('_DocumentNav.get_text', 'abc', 'descendants'), ('_DocumentNav.get_own_text', ['a', 'b', 'c'], 'contents')):
        for flag in (True, False):
            out, seen = collect(q, flag)
            out = list(out) if isinstance(out, (list, tuple)) else out
            ok = out == want and seen.get('source') == src_kind and seen.get('no_iframe') is flag
            r2.instance({'reader': q, 'nodes': [repr(n) for n in nodes], 'no_iframe': flag, 'result': out, 'expected': want,
                         'node_source': seen.get('source'), 'no_iframe_forwarded': seen.get('no_iframe')}, key=f'{q}-table-{flag}')
            r2.obligation(ok)
            if not ok:
                r2.violation(f'css_match.{q} filter shape', mmod.where(mmod.functions[q]),
                             f'{q}(no_iframe={flag}) over the child/descendant sequence [text a, comment, tag, text b, CDATA, text c] '
                             f'returns {out!r} from {seen.get("source")} with no_iframe={seen.get("no_iframe")}; expected {want!r} from '
                             f'the {src_kind} with the flag forwarded (content strings only, in order, '
                             f'{"joined without separator" if src_kind == "descendants" else "one entry per node"})')

    # ---- R3 (decision table of match_contains by partial evaluation) -----------------------------------------
    r3 = report.rule('C19-R3', 'any-of-list substring semantics: joined descendant text vs. one own text node', floor=29)
    _, mc = src.func('css_match.CSSMatch.match_contains')
    own_nodes, joined = ['ab', 'cd'], 'abXcd'       # own text nodes of the element / text of all descendants
    from .sem import real_matcher
    from ..tables import build_tree
    _doc, _order, _L = build_tree([('div', {}, [('p', {'_label': 'p'}, ['ab', ('b', {}, ['X']), 'cd'])])])

    def contains_case(lists, is_html):
        calls = []

        def get_text(el, no_iframe=False):
            calls.append(('get_text', no_iframe))
            return joined

        def get_own_text(el, no_iframe=False):
            calls.append(('get_own_text', no_iframe))
            return list(own_nodes)
        stubs = {'css_match._DocumentNav.get_text': get_text, 'css_match._DocumentNav.get_own_text': get_own_text}
        me = real_matcher(ctx, _L['p'])
        me.set('is_html', is_html)
        me.set('is_xml', not is_html)
        cl = tuple(Obj(_cls='css_types.SelectorContains', _name='SelectorContains', text=tuple(t), own=o) for t, o in lists)
        try:
            return bool(call_function(ctx, 'css_match.CSSMatch.match_contains', [Obj(_name='el'), cl], {}, stubs, me)), calls
        except Raised as e:
            return f'raises {e.exc_name}', calls
        except Unsupported as e:
            raise AnalysisError(f'match_contains: outside the evaluable fragment: {e}')

    def ref(lists):
        return all(any((any(t in n for n in own_nodes) if own else t in joined) for t in texts) for texts, own in lists)
    needles = ['ab', 'cd', 'bX', 'bc', 'abXcd', 'zz', 'b', '']
    cases = [[((t,), own)] for t in needles for own in (False, True)]
    cases += [[(('zz', t), own)] for t in ('ab', 'bX', 'bc') for own in (False, True)]
    cases += [[((t1,), o1), ((t2,), o2)] for t1 in ('ab', 'bX', 'zz') for t2 in ('cd', 'bX', 'b') for o1 in (False, True) for o2 in (False, True)]
    first_bad = None
    for lists in cases:
        for is_html in (True, False):
            got, calls = contains_case(lists, is_html)
            exp = ref(lists)
            flags_ok = all(f is is_html for _, f in calls)
            r3.instance({'contains': [{'any_of': list(t), 'own': o} for t, o in lists], 'html_document': is_html, 'result': got,
                         'expected': exp, 'text_reads': calls}, key=f'{lists}|{is_html}', sample_cap=4)
            if (got != exp or not flags_ok) and first_bad is None:
                first_bad = (lists, is_html, got, exp, calls)
    r3.obligation(first_bad is None)
    if first_bad is not None:
        lists, is_html, got, exp, calls = first_bad
        what = ' and '.join(f':-soup-contains{"-own" if o else ""}({", ".join(map(repr, t))})' for t, o in lists)
        r3.violation('css_match.CSSMatch.match_contains table', mmod.where(mc),
                     f'match_contains answers {got} for {what} on an element whose own text nodes are {own_nodes} and whose '
                     f'descendant text is {joined!r} ({"HTML" if is_html else "XML"} document, text reads {calls}); expected {exp} with '
                     f'no_iframe={is_html} on every read: descendant text is searched as one joined string, own text node by node, a '
                     f'list is any-of, several pseudo-classes are a conjunction')

    # one matcher, two elements whose markup compares equal although one holds a comment and the other text (bs4 compares
    # strings by their characters): the text read for the first must not be served for the second
    _d2, _o2, _L2 = build_tree([('ul', {}, [('li', {'_label': 'c'}, [('#comment', 'sold out')]), ('li', {'_label': 't'}, ['sold out']),
                                            ('li', {'_label': 'c2'}, [('#comment', 'sold out')])])])
    for order_ in (('c', 't', 'c2'), ('t', 'c', 't')):
        me = real_matcher(ctx, _L2['c'])
        needle = (Obj(_cls='css_types.SelectorContains', _name='SelectorContains', text=('sold out',), own=False),)
        got = []
        for lab in order_:
            try:
                got.append(bool(call_function(ctx, 'css_match.CSSMatch.match_contains', [_L2[lab], needle], {},
                                              {'util.lower': (lambda v: v), 'css_match.CSSMatch.supports_namespaces': lambda: False}, me)))
            except Raised as e:
                got.append(f'raises {e.exc_name}')
            except Unsupported as e:
                raise AnalysisError(f'match_contains on a tree: outside the evaluable fragment: {e}')
        exp = [lab == 't' for lab in order_]
        r3.instance({'elements_visited_with_one_matcher': list(order_), 'contains("sold out")': got, 'expected': exp}, key=f'seq|{order_}')
        r3.obligation(got == exp)
        if got != exp:
            r3.violation('css_match.CSSMatch.match_contains sequence', mmod.where(mc),
                         f':-soup-contains("sold out") evaluated with one matcher on <li><!--sold out--></li> (c) and <li>sold out</li> (t) in '
                         f'the order {list(order_)} gives {got}, expected {exp}: text remembered for one element is served for another '
                         f'that merely compares equal (bs4 compares tags by markup and strings by characters; the memo must be keyed by identity)')

    # ---- R4 ----------------------------------------------------------------------------------------------
    r4 = report.rule('C19-R4', 'needles reach the IR undistorted', floor=1)
    pmod, pcs = src.func('css_parser.CSSParser.parse_pseudo_contains')
    flow = StrFlow(src, pmod, pcs, 'CSSParser')
    sinks = [c for c in walk_no_nested(pcs) if isinstance(c, ast.Call) and src.resolve_class_ref(pmod, c.func) == 'css_types.SelectorContains']
    if not sinks:
        raise AnalysisError('parse_pseudo_contains: SelectorContains construction not found')
    for c in sinks:
        for p in sorted(flow.prov(c.args[0]), key=lambda p: (p.decodes, p.steps)):
            allowed = all(s in ('css_unescape', '[1:-1]') for s in p.steps)
            ok = p.decodes == 1 and allowed
            r4.instance({'needle_source': p.source, 'pipeline': list(p.steps), 'ok': ok}, key=f'{p.source}|{p.steps}')
            r4.obligation(ok)
            if not ok:
                r4.violation(f'parse_pseudo_contains pipeline {list(p.steps)}', pmod.where(c),
                             f'a :-soup-contains() needle reaches the IR through {list(p.steps)}; the only transformations allowed '
                             f'are dropping the two quote characters ([1:-1]) and one css_unescape - anything else (strip, replace, '
                             f'a second decode) changes needles that contain quotes, escapes or whitespace')
    # the quoted branch decodes with string=True, the identifier branch without
    for c in [n for n in walk_no_nested(pcs) if isinstance(n, ast.Call) and call_name(n) == 'css_unescape']:
        sliced = isinstance(c.args[0], ast.Subscript)
        string_mode = len(c.args) > 1 and inv.folder.try_ev('css_parser', c.args[1], default=None) is True
        r4.instance({'decode': unparse(c), 'quoted_value': sliced, 'string_mode': string_mode}, key=unparse(c))
        if sliced != string_mode:
            r4.violation(f'parse_pseudo_contains decode mode {unparse(c)}', pmod.where(c),
                         f'`{unparse(c)}`: quoted values must be decoded in string mode (escaped newlines) and bare identifiers not')
    warn = [c for q, f in pmod.functions.items() for c in walk_no_nested(f) if isinstance(c, ast.Call) and call_name(c) == 'warnings.warn'
            and 'contains' in unparse(c)]
    where = {pmod.enclosing_function(c) for c in warn}
    r4.instance({'deprecation_warning_sites': sorted(where)}, key='warn', nontrivial=False)
    if where - {'CSSParser.parse_pseudo_contains'}:
        r4.violation('contains alias warning elsewhere', 'soupsieve/css_parser.py', f'the :contains deprecation warning is emitted in {sorted(where)}')

    # ---- R5 ----------------------------------------------------------------------------------------------
    r5 = report.rule('C19-R5', ':empty uses the CSS whitespace set', floor=1)
    r = inv.find('css_match.RE_NOT_EMPTY')
    d = 'missing'
    if r is not None:
        s = rx.System()
        A = s.add('a', r.pattern, r.flags)
        B = s.add('b', '[^ \\t\\n\\r\\f]', 0)
        s.freeze()
        d = rx.equivalent(A, B)
    r5.instance({'RE_NOT_EMPTY': r.pattern if r else None, 'difference_from_non_CSS_whitespace': d}, key='re')
    r5.obligation(d is None)
    if d is not None:
        r5.violation('css_match.RE_NOT_EMPTY', r.where if r else 'soupsieve/css_match.py',
                     f'RE_NOT_EMPTY is {"missing" if r is None else "not [^ \\\\t\\\\n\\\\r\\\\f]"} ({d})')
    # how match_empty uses that regex is decided by the :empty tables (R2: children of every node kind, NBSP / VT; R6 pipeline rows)
    from .sem import iframe_policy
    from ..tables import el_obj
    iframe_policy(ctx, r5, 'css_match.CSSMatch.match_empty', lambda: [el_obj('e')], lambda html, restrict: False,
                  ':empty looks at the element\'s own children - an iframe element with children is not empty')

    from .sem import descendants_table
    descendants_table(ctx, r2)

    # ---- R6 (the whole pipeline by interpretation, bounded) --------------------------------------------------------------
    r6 = report.rule('C19-R6', 'text pseudo-classes on a tree with split text, comments, CDATA, an iframe and text-less elements (whole pipeline; bounded)', floor=50)
    from .e2ematch import text_table
    text_table(ctx, r6)

    # needles: quoting, escapes, comments in the list
    from .e2etab import equivalent_spellings_table
    equivalent_spellings_table(ctx, r6, only=(':-soup-contains', 'needle'))




