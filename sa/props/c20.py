"""C20 - diagnostics point at the right place and always terminate (decided clauses only).

R1  the two index-driven scanner loops (selector tokenizer, debug pretty-printer) advance or leave on every path
R2  the pretty-printer emits every token kind
R3  every SelectorSyntaxError raised by the parser carries the pattern and the position its message names
R4  the DEBUG flag only prints
R5  SelectorSyntaxError derives line/column/context whenever a pattern and an index are given (None-ness, not truthiness)
"""
from __future__ import annotations

import ast

from .. import rx
from ..core import AnalysisError, Report
from ..looprule import find_scanner_loops
from ..srcmodel import call_name, unparse, walk_no_nested


def sp_groups(pattern: str) -> int:
    import re._parser as _sp
    return _sp.parse(pattern).state.groups - 1


def _only_prints(mod, meth, caller_q, depth=0):
    """Does the method `meth` of the caller's class do nothing but print (plain statements, loops over pure iterables, tests)?"""
    cls = caller_q.split('.')[0] if '.' in caller_q else None
    fn = mod.functions.get(f'{cls}.{meth}') if cls else None
    if fn is None or depth > 2:
        return False
    READ = ('group', 'start', 'end', 'format', 'join', 'repr', 'str', 'len', 'zip', 'enumerate', 'sorted', 'reversed', 'range', 'items', 'keys', 'values',
            'bool', 'int', 'hex', 'get', 'lower', 'upper', 'type', 'isinstance', 'tuple', 'list', 'dict', 'getattr', '_asdict')

    def pure(e):
        return not any(isinstance(x, (ast.NamedExpr, ast.Yield, ast.YieldFrom, ast.Await)) or (
            isinstance(x, ast.Call) and call_name(x).split('.')[-1] not in READ) for x in ast.walk(e))
    todo = [st for st in fn.body if not (isinstance(st, ast.Expr) and isinstance(st.value, ast.Constant))]
    while todo:
        st = todo.pop()
        if isinstance(st, ast.If) and pure(st.test):
            todo.extend(st.body + st.orelse)
        elif isinstance(st, ast.For) and pure(st.iter):
            todo.extend(st.body + st.orelse)
        elif isinstance(st, ast.Expr) and isinstance(st.value, ast.Call) and call_name(st.value) == 'print' and all(pure(a) for a in st.value.args):
            continue
        elif isinstance(st, ast.Assign) and all(isinstance(t, ast.Name) for t in st.targets) and pure(st.value):
            continue
        elif isinstance(st, (ast.Pass,)) or (isinstance(st, ast.Return) and st.value is None):
            continue
        elif isinstance(st, ast.Expr) and isinstance(st.value, ast.Call) and call_name(st.value).startswith(('self.', 'cls.')) \
                and _only_prints(mod, call_name(st.value).split('.', 1)[1], caller_q, depth + 1):
            continue
        else:
            return False
    return True


def pretty_tokens(ctx):
    """pretty.TOKENS as {token name: inventoried regex}, whatever way the table is assembled (a dict literal, per-feature
    tables merged at import time): the module-level value is obtained by interpretation and each pattern is looked up in the
    regex inventory by its source."""
    from ..interp import Interp, Obj
    from ..miniev import Unsupported
    inv = ctx.consts
    it = Interp(ctx, 'pretty', None, {}, {}, shared={'steps': 0})
    try:
        v = it.lookup_module_name(ctx.src.mod('pretty'), 'TOKENS')
    except (KeyError, Unsupported) as e:
        raise AnalysisError(f'pretty.TOKENS cannot be evaluated: {e}')
    if not isinstance(v, dict):
        raise AnalysisError('pretty.TOKENS is not a mapping')
    by_src = {}
    for r in inv.regexes:
        if r.module == 'pretty' and isinstance(r.pattern, str):
            by_src.setdefault((r.pattern, r.flags), r)
    out = {}
    for k, o in v.items():
        if not (isinstance(k, str) and isinstance(o, Obj) and o.has('pattern')):
            raise AnalysisError(f'pretty.TOKENS[{k!r}] is not a compiled regex')
        r = by_src.get((o.get('pattern'), int(o.get('flags') or 0))) or next((x for (p_, f_), x in by_src.items() if p_ == o.get('pattern')), None)
        if r is None:
            raise AnalysisError(f'pretty.TOKENS[{k!r}] is not an inventoried regex')
        out[k] = r
    return out


def run(ctx, report: Report) -> None:
    src, inv = ctx.src, ctx.consts
    report.explanation = (
        'R1: termination of the scanner loops by a path rule - on every path from the loop head back to it the index '
        'is assigned m.end() of a match known to be truthy on that path (every regex that can produce it has a '
        'shortest match >= 1, computed on the regex automaton) or is incremented by a positive constant. R3/R5: the '
        'raise sites and the error constructor are checked for agreement between message and position and for '
        'None-sentinel discipline. R4: an effect rule on every statement control-dependent on the debug flag.')
    report.not_decided = ('the line/column arithmetic of get_pattern_context (a computation over run-time offsets; the '
                          'known end-of-pattern defect lives there) and "reproduces its repr up to whitespace".')
    report.trusted_base = ['re._parser.parse', 'ast']

    # ---- R1 ----------------------------------------------------------------------------------------------
    r1 = report.rule('C20-R1', 'scanner loops make progress or leave', floor=4)
    targets = [('css_parser.CSSParser.selector_iter', 'tokens'), ('pretty.pretty', 'pretty')]
    for fq, kind in targets:
        mod, fn = src.func(fq)
        loops = find_scanner_loops(mod, fq, fn)
        from .sem import pretty_progress, tokenizer_progress
        (tokenizer_progress if kind == 'tokens' else pretty_progress)(ctx, r1)
        # regexes that can produce the match variables: non-nullable and free of exponential ambiguity
        names = []
        if kind == 'tokens':
            names = [r for r in inv.regexes if r.kind in ('token', 'special-token')]
        else:
            names = list(pretty_tokens(ctx).values())
        nullable = []
        ambiguous = []
        for r in names:
            s = rx.System()
            a = s.add('r', r.pattern, r.flags)
            s.freeze()
            n, _ = a.shortest()
            if n is None or n < 1:
                nullable.append(r.name)
            try:
                eda = a.find_eda()
            except rx.Unsupported as e:
                raise AnalysisError(f'{r.name}: outside the exact regex model: {e}')
            if eda:
                ambiguous.append((r, eda[0]))
        r1.instance({'scanner': fq, 'match_regexes': len(names), 'nullable_regexes': nullable,
                     'exponentially_ambiguous': [r.name for r, _ in ambiguous]}, key=fq + '|regexes')
        r1.obligation(not nullable and not ambiguous)
        for r, eda in ambiguous:
            r1.violation(f'{fq} regex {r.name} exponential', r.where,
                         f'{fq}: regex {r.name} ({r.pattern!r}) is exponentially ambiguous (pump {eda.get("pump")!r}): a failing match '
                         f'attempt (e.g. an unterminated string in a truncated repr) backtracks for ever, so the scanner never '
                         f'returns')
        for nm in nullable:
            r1.violation(f'{fq} nullable {nm}', mod.where(fn),
                         f'{fq}: regex {nm} can match the empty string, so the index need not advance after a match')
        # second opinion: the structural path rule, where the loop has the shape it understands
        for lp in loops:
            r1.instance({'loop': f'{fq}: while {unparse(lp.node.test)}', 'index': lp.idx,
                         'paths_without_progress': lp.bad_paths, 'bound_untouched': lp.test_ok}, key=fq)
            r1.obligation(not lp.bad_paths and lp.test_ok)
            for b in lp.bad_paths:
                r1.violation(f'{fq} loop-progress {b}', mod.where(lp.node),
                             f'{fq}: a path returns to the head of `while {unparse(lp.node.test)}` with the {b}: the loop '
                             f'never terminates on input that takes this path')
            if not lp.test_ok:
                r1.violation(f'{fq} loop-bound', mod.where(lp.node), f'{fq}: the loop bound {lp.bound} changes inside the loop')

    # ---- R2 ----------------------------------------------------------------------------------------------
    r2 = report.rule('C20-R2', 'the pretty-printer emits every token kind', floor=2)
    pmod, pfn = src.func('pretty.pretty')
    from ..interp import Obj, Raised, call_function
    from ..miniev import Unsupported
    from ..tables import match_obj
    toks = pretty_tokens(ctx)
    keys = list(toks)
    pat_of = {k_: r_.pattern for k_, r_ in toks.items()}

    def pretty_on(kind):
        calls = [0]

        def matcher(rx_obj, text, pos=0, *a_):
            calls[0] += 1
            if calls[0] > 200:
                raise Raised('<no progress>')
            if kind is not None and rx_obj.get('pattern') == pat_of[kind] and pos == 0:
                return match_obj({0: '<TOKEN>', 1: '<GROUP1>'}, name=kind, start=0, end=1)
            return None
        try:
            return call_function(ctx, 'pretty.pretty', [Obj(_name='obj')], {}, {'str': lambda o: 'X', 're.Pattern.match': matcher})
        except Raised as e:
            return f'raises {e.exc_name}'
        except Unsupported as e:
            raise AnalysisError(f'pretty(): outside the evaluable fragment: {e}')
    for k in keys:
        out = pretty_on(k)
        want = '<GROUP1>' if sp_groups(pat_of[k]) else '<TOKEN>'
        ok = isinstance(out, str) and want in out and 'X' not in out
        r2.instance({'token': k, 'output_for_one_token': out, 'must_contain': want}, key=k)
        r2.obligation(ok)
        if not ok:
            r2.violation(f'pretty.pretty token {k}', pmod.where(pfn),
                         f'pretty(): on an input that consists of one {k!r} token the output is {out!r}; the matched text '
                         f'({want}) must be emitted, once: that part of the repr is dropped or duplicated otherwise')
    out = pretty_on(None)
    ok = out == 'X'
    r2.instance({'token': None, 'output_for_unmatched_character': out}, key='no-token')
    r2.obligation(ok)
    if not ok:
        r2.violation('pretty.pretty unmatched character', pmod.where(pfn),
                     f'pretty(): a character that no token pattern matches yields {out!r} instead of being copied to the output')

    # ---- R3 ----------------------------------------------------------------------------------------------
    r3 = report.rule('C20-R3', 'syntax errors carry the pattern and the position named in the message', floor=2)
    cmod = src.mod('css_parser')
    for q, fn in cmod.functions.items():
        for rs in [n for n in walk_no_nested(fn) if isinstance(n, ast.Raise) and isinstance(n.exc, ast.Call)]:
            if call_name(rs.exc).split('.')[-1] != 'SelectorSyntaxError':
                continue
            c = rs.exc
            in_parser = q.startswith('CSSParser.')
            args = c.args
            msg = args[0] if args else None
            # position expression interpolated in the message
            interp = []
            msgs = [msg]
            if isinstance(msg, ast.Name):
                # msg built in branches: collect every f-string assigned to it in the function
                msgs = [st.value for st in walk_no_nested(fn) if isinstance(st, ast.Assign)
                        and isinstance(st.targets[0], ast.Name) and st.targets[0].id == msg.id]
            for m_ in msgs:
                if isinstance(m_, ast.JoinedStr):
                    for v in m_.values:
                        if isinstance(v, ast.FormattedValue):
                            interp.append(unparse(v.value))
                elif isinstance(m_, ast.BinOp):
                    for v in ast.walk(m_):
                        if isinstance(v, ast.FormattedValue):
                            interp.append(unparse(v.value))
            problems = []
            if in_parser:
                if len(args) != 3:
                    problems.append(f'is raised with {len(args)} argument(s): no pattern/position, so no line, column or context')
                else:
                    if unparse(args[1]) != 'self.pattern':
                        problems.append(f'passes `{unparse(args[1])}` instead of self.pattern')
                    pos = unparse(args[2])
                    # a position taken from a named / numbered group is -1 when that group did not take part in the match
                    for pc in [x for x in ast.walk(args[2]) if isinstance(x, ast.Call) and isinstance(x.func, ast.Attribute)
                               and x.func.attr in ('start', 'end') and x.args]:
                        g = inv.folder.try_ev('css_parser', pc.args[0], default='?')
                        if g == 0:
                            continue
                        recv = unparse(pc.func.value)
                        guarded = False
                        cur, child = cmod.parents.get(rs), rs
                        while cur is not None and cur is not fn:
                            if isinstance(cur, ast.If) and any(child is st for st in cur.body):
                                t = cur.test
                                tests = t.values if isinstance(t, ast.BoolOp) and isinstance(t.op, ast.And) else [t]
                                for tt in tests:
                                    if isinstance(tt, ast.Call) and unparse(tt.func) == f'{recv}.group' and tt.args \
                                            and inv.folder.try_ev('css_parser', tt.args[0], default='??') == g:
                                        guarded = True
                                    if isinstance(tt, ast.Compare) and isinstance(tt.left, ast.Call) and unparse(tt.left.func) == f'{recv}.group' \
                                            and isinstance(tt.ops[0], ast.IsNot) and isinstance(tt.comparators[0], ast.Constant) \
                                            and tt.comparators[0].value is None:
                                        guarded = True
                            child, cur = cur, cmod.parents.get(cur)
                        if not guarded:
                            problems.append(f'takes its position from `{unparse(pc)}`: group {g!r} need not have taken part in the match on this '
                                            f'path, and then the offset is -1 (no line is marked, the column is 0)')
                    positional = [i for i in interp if i == pos or any(k in i for k in ('index', 'start(', 'end('))]
                    if positional and pos not in positional:
                        problems.append(f'names position {positional[0]} in its message but passes {pos}')
            r3.instance({'site': f'css_parser.{q}', 'raise': unparse(c)[:80], 'problems': problems},
                        key=f'{q}|{unparse(msg)[:50] if msg is not None else ""}')
            r3.obligation(not problems)
            for p in problems:
                r3.violation(f'css_parser.{q} raise {p[:50]}', cmod.where(rs), f'css_parser.{q}: SelectorSyntaxError {p}')

    # ---- R4 ----------------------------------------------------------------------------------------------
    r4 = report.rule('C20-R4', 'statements under the debug flag only print', floor=2)
    for mn, mod in src.mods.items():
        for q, fn in mod.functions.items():
            for n in walk_no_nested(fn):
                if isinstance(n, ast.If) and any(isinstance(x, ast.Attribute) and x.attr == 'debug' or
                                                 isinstance(x, ast.Name) and x.id == 'debug' for x in ast.walk(n.test)):
                    stmts = list(n.body) + list(n.orelse)
                    todo = list(stmts)
                    bad = []
                    READ_CALLS = ('group', 'start', 'end', 'format', 'join', 'repr', 'str', 'len', 'zip', 'enumerate', 'sorted', 'reversed',
                                  'range', 'items', 'keys', 'values', 'bool', 'int', 'hex', 'get', 'lower', 'upper', 'type', 'isinstance',
                                  'tuple', 'list', 'dict', 'groupdict', 'span', '_asdict', 'ljust', 'rjust', 'strip')

                    def pure(e):
                        return not any(isinstance(x, (ast.NamedExpr, ast.Yield, ast.YieldFrom, ast.Await)) or (
                            isinstance(x, ast.Call) and call_name(x).split('.')[-1] not in READ_CALLS) for x in ast.walk(e))
                    # names bound inside the block must stay inside it
                    inside = {id(x) for st in stmts for x in ast.walk(st)}
                    bound = {x.id for st in stmts for x in ast.walk(st) if isinstance(x, ast.Name) and isinstance(x.ctx, ast.Store)}

                    def rebound_outside(x):
                        """Is this use of a name (outside the debug block) fed by a binding that is itself outside the block:
                        the target of an enclosing loop / comprehension, or an unconditional assignment earlier in an enclosing
                        statement list that comes after the debug block?"""
                        cur = x
                        while cur is not None and cur is not fn:
                            par = mod.parents.get(cur)
                            if isinstance(par, ast.For) and cur in par.body and any(
                                    isinstance(t_, ast.Name) and t_.id == x.id for t_ in ast.walk(par.target)):
                                return True
                            if isinstance(par, (ast.ListComp, ast.SetComp, ast.GeneratorExp, ast.DictComp)) and any(
                                    isinstance(t_, ast.Name) and t_.id == x.id for g_ in par.generators for t_ in ast.walk(g_.target)):
                                return True
                            if isinstance(cur, ast.stmt):
                                for fld in ('body', 'orelse', 'finalbody'):
                                    blk = getattr(par, fld, None)
                                    if isinstance(blk, list) and cur in blk:
                                        for prev in reversed(blk[:blk.index(cur)]):
                                            if prev is n or any(y is n for y in ast.walk(prev)):
                                                return False
                                            if isinstance(prev, ast.Assign) and any(isinstance(t_, ast.Name) and t_.id == x.id for t_ in prev.targets):
                                                return True
                            cur = par
                        return False
                    leaks = {x.id for x in ast.walk(fn) if isinstance(x, ast.Name) and x.id in bound and id(x) not in inside
                             and not (isinstance(x.ctx, ast.Store) or rebound_outside(x))}
                    while todo:
                        st = todo.pop()
                        if isinstance(st, ast.If):
                            # nested conditions may only read
                            if not pure(st.test):
                                bad.append(st)
                            todo.extend(st.body + st.orelse)
                        elif isinstance(st, ast.For):
                            # iteration over a display of values, binding block-local names
                            tn = [x for x in ast.walk(st.target) if isinstance(x, ast.expr)]
                            if not pure(st.iter) or not all(isinstance(x, (ast.Name, ast.Tuple, ast.List)) for x in tn) \
                                    or any(isinstance(x, ast.Name) and x.id in leaks for x in tn) \
                                    or not isinstance(st.iter, (ast.Tuple, ast.List, ast.Name, ast.Attribute, ast.Call, ast.Subscript)):
                                bad.append(st)
                            todo.extend(st.body + st.orelse)
                        elif isinstance(st, ast.Assign) and all(isinstance(t, ast.Name) and t.id not in leaks for t in st.targets) \
                                and pure(st.value):
                            pass
                        elif isinstance(st, ast.Expr) and isinstance(st.value, ast.Call) and call_name(st.value) == 'print':
                            if not all(pure(a) for a in st.value.args):
                                bad.append(st)
                        elif isinstance(st, ast.Expr) and isinstance(st.value, ast.Call) and call_name(st.value).startswith(('self.', 'cls.')) \
                                and _only_prints(mod, call_name(st.value).split('.', 1)[1], q) and all(
                                    isinstance(a, (ast.Name, ast.Attribute, ast.Constant)) or pure(a) for a in st.value.args):
                            pass        # a helper method of the same class whose body only prints (checked recursively)
                        elif isinstance(st, ast.Pass):
                            pass
                        else:
                            bad.append(st)
                    r4.instance({'site': f'{mn}.{q}: if {unparse(n.test)}', 'statements': len(stmts),
                                 'non_print': [unparse(b)[:60] for b in bad]}, key=f'{mn}.{q}|{unparse(n.test)}|{len(stmts)}')
                    r4.obligation(not bad)
                    for b in bad:
                        r4.violation(f'{mn}.{q} debug {unparse(b)[:50]}', mod.where(b),
                                     f'{mn}.{q}: `{unparse(b)[:70]}` runs only when the DEBUG flag is set and is not a plain '
                                     f'print: the flag can change parsing results or errors')
                # conditional expressions on debug
                if isinstance(n, ast.IfExp) and 'debug' in unparse(n.test):
                    r4.violation(f'{mn}.{q} debug-ifexp {unparse(n)[:40]}', mod.where(n),
                                 f'{mn}.{q}: value `{unparse(n)[:60]}` depends on the DEBUG flag')
    # flags is part of the cache key (so a DEBUG compile is not served to a non-DEBUG caller): see C15-R4
    # with and without DEBUG the top-level list is handed to the parser the same way (index 0, no private parser flags)
    from .sem import pattern_handover_table
    pattern_handover_table(ctx, r4)

    # ---- R5 ----------------------------------------------------------------------------------------------
    r5 = report.rule('C20-R5', 'SelectorSyntaxError derives its position whenever pattern and index are given', floor=1)
    umod, ifn = src.func('util.SelectorSyntaxError.__init__')
    params = [a.arg for a in ifn.args.args]
    if len(params) < 4:
        raise AnalysisError('SelectorSyntaxError.__init__: expected (self, msg, pattern, index)')
    p_pat, p_idx = params[2], params[3]
    from ..interp import Obj, Raised, call_function
    from ..miniev import Unsupported
    bad = None
    for pat, idx in ((None, None), ('', 0), ('p', 0), ('', 5), ('abc', 2), ('p', None), (None, 3)):
        calls = []

        def gpc(p_, i_, _c=calls):
            _c.append((p_, i_))
            return ('<context>', 7, 9)
        me = Obj(_cls='util.SelectorSyntaxError', _name='error')
        try:
            call_function(ctx, 'util.SelectorSyntaxError.__init__', ['message', pat, idx], {}, {'get_pattern_context': gpc,
                                                                                              'util.get_pattern_context': gpc}, me)
        except Raised as e:
            calls.append(f'raises {e.exc_name}')
        except Unsupported as e:
            raise AnalysisError(f'SelectorSyntaxError.__init__: outside the evaluable fragment: {e}')
        got = tuple(me.get(f) if me.has(f) else '<unset>' for f in ('context', 'line', 'col'))
        given = pat is not None and idx is not None
        exp = ('<context>', 7, 9) if given else (None, None, None)
        msg_args = me.get('__base_init_args__') if me.has('__base_init_args__') else None
        msg_ok = bool(msg_args) and isinstance(msg_args[0], str) and 'message' in msg_args[0] and (
            not given or ('7' in msg_args[0] and '<context>' in msg_args[0]))
        ok = got == exp and calls == ([(pat, idx)] if given else []) and msg_ok
        r5.instance({'pattern': pat, 'index': idx, 'context_line_col': got, 'expected': exp, 'message': msg_args[0][:60] if msg_args else None},
                    key=f'err|{pat!r}|{idx!r}')
        r5.obligation(ok)
        if not ok and bad is None:
            bad = (pat, idx, got, exp, calls, msg_args)
    if bad is not None:
        pat, idx, got, exp, calls, msg_args = bad
        r5.violation('util.SelectorSyntaxError.__init__ guard', umod.where(ifn),
                     f'SelectorSyntaxError(msg, pattern={pat!r}, index={idx!r}) ends with (context, line, col) = {got}, expected {exp} '
                     f'(get_pattern_context calls: {calls}; message passed on: {msg_args}): the position is derived exactly when '
                     f'pattern and index are both given - an empty pattern or offset 0 is legitimate - and the message carries it')

    # ---- R6 ----------------------------------------------------------------------------------------------
    r6 = report.rule('C20-R6', 'lines of a pattern are delimited by LF, CR and CRLF only', floor=1)
    ls = inv.find('util.RE_PATTERN_LINE_SPLIT')
    if ls is None:
        raise AnalysisError('util.RE_PATTERN_LINE_SPLIT not found (anchor vanished)')
    s = rx.System()
    try:
        A = s.add('split', ls.pattern, ls.flags)
        B = s.add('ref', '(?:\\r\\n|\\n|\\r)?', 0)
        s.freeze()
        d = rx.equivalent(A, B)
    except rx.Unsupported as e:
        raise AnalysisError(f'RE_PATTERN_LINE_SPLIT outside the exact regex model: {e}')
    r6.instance({'RE_PATTERN_LINE_SPLIT': ls.pattern, 'difference_from_{CRLF, LF, CR, end}': d}, key='linesplit')
    r6.obligation(d is None)
    if d is not None:
        r6.violation(f'util.RE_PATTERN_LINE_SPLIT {d[0]} {d[1]!r}', ls.where,
                     f'the line splitter of get_pattern_context {"also splits on" if d[0] == "only-in-first" else "no longer splits on"} '
                     f'{d[1]!r}: the line and column reported by SelectorSyntaxError count lines as CRLF, LF or CR (a form feed or other '
                     f'white space stays inside its line)')

    # ---- R7 ----------------------------------------------------------------------------------------------
    r7 = report.rule('C20-R7', 'line, column and caret for every offset of short patterns with every line-break style (bounded)', floor=1)
    from .sem import pattern_context_table
    pattern_context_table(ctx, r7)

    # ---- R8 (texts compiled by interpretation, bounded) -----------------------------------------------------------------
    r8 = report.rule('C20-R8', 'the offset of every SelectorSyntaxError lies inside the pattern (texts over an alphabet of fragments; bounded)', floor=1)
    from .e2etab import error_type_table
    error_type_table(ctx, r8, depth=1 if ctx.tier == 'quick' else 2, custom_too=True)
    r8.findings[:] = [f for f in r8.findings if 'error offset' in f.key]

    # ---- R9 (texts compiled by interpretation, bounded) -----------------------------------------------------------------
    r9 = report.rule('C20-R9', 'compiling with and without the DEBUG flag gives the same structure or the same error (bounded)', floor=5)
    from .e2etab import debug_invariance_table
    debug_invariance_table(ctx, r9)




