"""Shared result model, evidence writer and known-findings handling."""
from __future__ import annotations

import json
import os
import time
from dataclasses import dataclass, field
from typing import Any

VERIF_DIR = os.path.dirname(os.path.dirname(os.path.abspath(__file__)))
EVIDENCE_DIR = os.path.join(VERIF_DIR, 'evidence')
KNOWN_FINDINGS = os.path.join(VERIF_DIR, 'known_findings.json')


class AnalysisError(Exception):
    """The analysis itself cannot give a verdict (anchor vanished, unsupported construct, floor not met)."""


@dataclass
class Finding:
    rule: str
    key: str          # stable construct key (qualified name + normalised text); never a line number
    where: str        # file:line, informational only
    message: str
    extra: dict = field(default_factory=dict)

    def as_dict(self) -> dict:
        return {'rule': self.rule, 'key': self.key, 'where': self.where, 'message': self.message, **(
            {'extra': self.extra} if self.extra else {})}


class Rule:
    """One rule of a property's rule pack: counts the instances it examined and collects findings."""

    def __init__(self, rid: str, title: str, floor: int | None = None):
        self.rid = rid
        self.title = title
        self.floor = floor
        self.instances = 0
        self.nontrivial: set[str] = set()
        self.samples: list[Any] = []
        self.findings: list[Finding] = []
        self.notes: list[str] = []
        self.obligations = 0
        self.discharged = 0

    def instance(self, desc: Any, nontrivial: bool = True, key: str | None = None, sample_cap: int = 6) -> None:
        """Record one examined instance. `nontrivial`: a discharge had to be computed for it."""
        self.instances += 1
        if nontrivial:
            self.nontrivial.add(key if key is not None else json.dumps(desc, sort_keys=True, default=str))
        if len(self.samples) < sample_cap:
            self.samples.append(desc)

    def obligation(self, ok: bool) -> None:
        self.obligations += 1
        if ok:
            self.discharged += 1

    def violation(self, key: str, where: str, message: str, **extra: Any) -> None:
        self.findings.append(Finding(self.rid, key, where, message, extra))

    def note(self, text: str) -> None:
        self.notes.append(text)

    def check_floor(self) -> None:
        # a rule that already reports a violation is not vacuous, however few instances it looked at
        if self.floor is not None and self.instances < self.floor and not self.findings and not os.environ.get('SA_NOFLOOR'):
            raise AnalysisError(
                f'{self.rid}: only {self.instances} instance(s) found, confirmed floor is {self.floor} '
                f'({self.title}) - the rule would pass vacuously'
            )


class Report:
    def __init__(self, pid: str):
        self.pid = pid
        self.rules: list[Rule] = []
        self.analysed: dict[str, Any] = {}
        self.assumptions: list[str] = []
        self.trusted_base: list[str] = []
        self.explanation = ''
        self.not_decided = ''
        self.extra: dict[str, Any] = {}

    def rule(self, rid: str, title: str, floor: int | None = None) -> Rule:
        r = Rule(rid, title, floor)
        self.rules.append(r)
        return r

    def findings(self) -> list[Finding]:
        return [f for r in self.rules for f in r.findings]


def load_known() -> tuple[list[dict], list[str]]:
    if not os.path.exists(KNOWN_FINDINGS):
        return [], []
    with open(KNOWN_FINDINGS) as fh:
        data = json.load(fh)
    return data.get('findings', []), data.get('fixed', [])


def split_findings(pid: str, findings: list[Finding]) -> tuple[list[tuple[Finding, dict]], list[Finding]]:
    """Partition into (known, new). A known entry matches on property + rule + key exactly."""
    known_entries, _ = load_known()
    known, new = [], []
    for f in findings:
        hit = None
        for e in known_entries:
            if e.get('property') == pid and e.get('rule') == f.rule and e.get('key') == f.key:
                hit = e
                break
        if hit is not None:
            known.append((f, hit))
        else:
            new.append(f)
    return known, new


def write_evidence(report: Report, tier: str, seed: int, wall_s: float, n_violations: int,
                   known: list[tuple[Finding, dict]], new: list[Finding], root: str,
                   selftest: dict | None = None) -> str:
    os.makedirs(EVIDENCE_DIR, exist_ok=True)
    evaluations = sum(r.instances for r in report.rules)
    nontrivial = sum(len(r.nontrivial) for r in report.rules)
    samples = []
    for r in report.rules:
        for s in r.samples[:4]:
            samples.append({'rule': r.rid, 'instance': s})
    obligations = sum(r.obligations for r in report.rules)
    discharged = sum(r.discharged for r in report.rules)
    coverage = {
        'explanation': report.explanation + (' NOT DECIDED: ' + report.not_decided if report.not_decided else ''),
        'evaluations': evaluations,
        'distinct_nontrivial': nontrivial,
        'rule': ('one evaluation = one rule instance (a call site, regex, branch, table row or path) located in '
                 'the parsed sources and examined by a rule; non-trivial = the rule had to compute a discharge for '
                 'it (language query, path walk, type lookup, table comparison) rather than skip it syntactically; '
                 'distinct = distinct by construct key (qualified name + normalised expression)'),
        'samples': samples if samples else [{'note': 'no instances'}],
        'obligations': obligations,
        'discharged': discharged,
        'trusted_base': report.trusted_base,
        'checker_cmd': f'/venv/bin/python -m sa.check {report.pid} --tier {tier}',
        'rules': [
            {
                'id': r.rid, 'title': r.title, 'instances': r.instances, 'nontrivial': len(r.nontrivial),
                'floor': r.floor, 'findings': [f.as_dict() for f in r.findings], 'notes': r.notes,
                'obligations': r.obligations, 'discharged': r.discharged,
            } for r in report.rules
        ],
        'analysed': report.analysed,
        'root': root,
        'known_findings_reported': [f.as_dict() for f, _ in known],
        'new_violations': [f.as_dict() for f in new],
        'exhaustive': False,
    }
    coverage.update(report.extra)
    if selftest is not None:
        coverage['self_validation'] = selftest
    ev = {
        'property_id': report.pid,
        'tier': tier,
        'seed': seed,
        'level': 'other',
        'coverage': coverage,
        'assumptions': report.assumptions,
        'wall_s': round(wall_s, 3),
        'violations': n_violations,
    }
    path = os.path.join(EVIDENCE_DIR, f'{report.pid}.json')
    tmp = path + '.tmp'
    with open(tmp, 'w') as fh:
        json.dump(ev, fh, indent=1, default=str)
    os.replace(tmp, path)
    return path


def write_replay(pid: str, n: int, f: Finding, root: str) -> str:
    d = os.path.join(EVIDENCE_DIR, 'replay')
    os.makedirs(d, exist_ok=True)
    path = os.path.join(d, f'{pid}-{n}.json')
    with open(path, 'w') as fh:
        json.dump({'property': pid, 'root': root, **f.as_dict(), 'written': time.strftime('%Y-%m-%dT%H:%M:%S')},
                  fh, indent=1, default=str)
    return path
