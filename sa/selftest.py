"""Self-validation of a check against the tree it has just analysed (thorough tier).

The verdict of a static rule is only worth something if the rule can still see what it claims to see on the CURRENT
tree.  For the property under test this module

  * applies every stored property-breaking change of that property (/verif/seeded/<ID>*/patch.diff, each confirmed by
    hand against the real code when it was stored) to a scratch copy of the current package and re-runs the rule pack:
    the pack must report a new violation (sensitivity);
  * applies every stored behaviour-preserving refactoring (/verif/twins/*/patch.diff) and re-runs the pack: it must
    stay silent (specificity).

Scratch copies live in a temporary directory outside /repo and /verif and are removed as soon as the run is over.
A patch that no longer applies to the current tree is skipped and counted.  The outcome is evidence only: it never
changes the exit status of the check (a weak or noisy rule is reported with SELFTEST-WEAK / SELFTEST-NOISY lines).
"""
from __future__ import annotations

import json
import os
import shutil
import subprocess
import sys
import tempfile
from concurrent.futures import ThreadPoolExecutor

from .core import VERIF_DIR

PY = sys.executable or '/venv/bin/python'
SEEDED = os.path.join(VERIF_DIR, 'seeded')
TWINS = os.path.join(VERIF_DIR, 'twins')
# stored changes the claimed rules are known NOT to decide (documented in DESIGN.md, section "misses")
NOT_DECIDED = set()


def _variants(pid: str):
    out = []
    if os.path.isdir(SEEDED):
        for n in sorted(os.listdir(SEEDED)):
            d = os.path.join(SEEDED, n)
            mp = os.path.join(d, 'meta.json')
            if not (n.startswith(pid + '-') and os.path.exists(os.path.join(d, 'patch.diff'))):
                continue
            out.append(('mutant', n, os.path.join(d, 'patch.diff')))
    if os.path.isdir(TWINS):
        for n in sorted(os.listdir(TWINS)):
            p = os.path.join(TWINS, n, 'patch.diff')
            if os.path.exists(p):
                out.append(('twin', n, p))
    return out


def _run_variant(kind, name, patch, pid, root):
    tmp = tempfile.mkdtemp(prefix='sa-selftest-')
    try:
        shutil.copytree(os.path.join(root, 'soupsieve'), os.path.join(tmp, 'soupsieve'),
                        ignore=shutil.ignore_patterns('__pycache__'))
        docs = os.path.join(root, 'docs')
        if os.path.isdir(docs):
            os.symlink(docs, os.path.join(tmp, 'docs'))
        r = subprocess.run(['git', 'apply', '--unsafe-paths', f'--directory={tmp}', patch], capture_output=True, text=True, cwd='/')
        if r.returncode:
            return kind, name, 'skipped', 'patch does not apply to the current tree'
        env = dict(os.environ, PYTHONDONTWRITEBYTECODE='1')
        r = subprocess.run([PY, '-m', 'sa.check', pid, '--root', tmp, '--no-evidence', '--json', '--tier', 'quick'],
                           capture_output=True, text=True, cwd=VERIF_DIR, env=env)
        js = [l for l in r.stdout.splitlines() if l.startswith('JSON ')]
        if r.returncode == 2 or not js:
            msg = ' '.join(l for l in r.stdout.splitlines() if 'ANALYSIS-ERROR' in l)[:200]
            return kind, name, 'analysis-error', msg
        j = json.loads(js[0][5:])
        rules = sorted({f['rule'] for f in j['new']})
        return kind, name, ('fires' if rules else 'silent'), ', '.join(rules)
    finally:
        shutil.rmtree(tmp, ignore_errors=True)


def run_for(pid: str, ctx) -> dict:
    variants = _variants(pid)
    jobs = int(os.environ.get('SA_SELFTEST_JOBS', '8'))
    results = []
    with ThreadPoolExecutor(max(1, jobs)) as ex:
        for res in ex.map(lambda v: _run_variant(v[0], v[1], v[2], pid, ctx.root), variants):
            results.append(res)
    weak, noisy, rows = [], [], []
    counts = {'mutants': 0, 'mutants_detected': 0, 'mutants_skipped': 0, 'mutants_not_decided': 0,
              'twins': 0, 'twins_silent': 0, 'twins_skipped': 0}
    for kind, name, status, info in results:
        rows.append({'kind': kind, 'name': name, 'status': status, 'detail': info})
        if kind == 'mutant':
            counts['mutants'] += 1
            if status == 'skipped':
                counts['mutants_skipped'] += 1
            elif status == 'fires':
                counts['mutants_detected'] += 1
            elif name in NOT_DECIDED:
                counts['mutants_not_decided'] += 1
            else:
                weak.append(f'property={pid} stored change {name} is not reported on the current tree ({status} {info})')
        else:
            counts['twins'] += 1
            if status == 'skipped':
                counts['twins_skipped'] += 1
            elif status == 'silent':
                counts['twins_silent'] += 1
            else:
                noisy.append(f'property={pid} behaviour-preserving refactoring {name} raises {status} {info}')
    summary = (f'{counts["mutants_detected"]}/{counts["mutants"] - counts["mutants_skipped"]} stored property-breaking changes '
               f'reported ({counts["mutants_not_decided"]} documented as not decided, {counts["mutants_skipped"]} skipped), '
               f'{counts["twins_silent"]}/{counts["twins"] - counts["twins_skipped"]} behaviour-preserving refactorings silent '
               f'({counts["twins_skipped"]} skipped)')
    return {'summary': summary, 'counts': counts, 'weak': weak, 'noisy': noisy, 'variants': rows}
