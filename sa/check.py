"""Driver: /venv/bin/python -m sa.check <ID> [--tier quick|thorough] [--root DIR] [--replay FILE]."""
from __future__ import annotations

import argparse
import importlib
import json
import os
import sys
import time
import traceback

from . import core


class Ctx:
    """Per-run context: lazily built engines over the tree at `root`."""

    def __init__(self, root: str, tier: str, seed: int):
        self.root = os.path.abspath(root)
        self.pkg = os.path.join(self.root, 'soupsieve')
        self.tier = tier
        self.seed = seed
        self._cache: dict = {}

    def get(self, name: str, factory):
        if name not in self._cache:
            self._cache[name] = factory()
        return self._cache[name]

    @property
    def src(self):
        from . import srcmodel
        return self.get('src', lambda: srcmodel.SourceModel(self.pkg))

    @property
    def consts(self):
        from . import constfold
        if 'consts' not in self._cache:
            self._cache['consts'] = constfold.Inventory(self.src)
            if self._cache['consts'].unresolved:
                # compile sites the constant folder cannot read (pattern template and quoting function taken from a table, ...):
                # second stage, by interpreting the enclosing function with marker values
                from .props import sem
                sem.resolve_compile_sites(self)
        return self._cache['consts']

    @property
    def types(self):
        from . import typefacts
        return self.get('types', lambda: typefacts.TypeFacts(self.root))


def _rule_statement(st) -> str | None:
    """The variable a top-level statement of run() binds to `report.rule(...)`, else None."""
    import ast
    if isinstance(st, ast.Assign) and len(st.targets) == 1 and isinstance(st.targets[0], ast.Name) and isinstance(st.value, ast.Call) \
            and isinstance(st.value.func, ast.Attribute) and st.value.func.attr == 'rule' \
            and isinstance(st.value.func.value, ast.Name) and st.value.func.value.id == 'report':
        return st.targets[0].id
    return None


def run_property(pid: str, ctx: Ctx) -> core.Report:
    """Run the rule pack of a property.

    A rule whose anchors are gone on the tree under analysis (the function it interprets was renamed, merged, re-signatured or moved;
    a construct outside the evaluator) cannot give a verdict.  If that happened to the whole pack the run is an ANALYSIS-ERROR.  If
    other rules of the pack - in particular the tables that only need the public API - can still be evaluated, the rule is reported
    as SKIPPED-RULE with the reason and the pack goes on: the section of run() that belongs to the rule (from its `report.rule(...)`
    statement to the next one) is left out and the pack is executed again.  Nothing is skipped on a tree where every anchor exists."""
    import ast
    import types
    modname = f'sa.props.{pid.lower()}'
    path = os.path.join(os.path.dirname(os.path.abspath(__file__)), 'props', f'{pid.lower()}.py')
    tree = ast.parse(open(path).read(), path)
    run_fn = next(n for n in tree.body if isinstance(n, ast.FunctionDef) and n.name == 'run')
    skipped: list[tuple[str, str]] = []
    for attempt in range(16):
        report = core.Report(pid)
        if attempt == 0:
            mod = importlib.import_module(modname)
        else:
            mod = types.ModuleType(modname)
            mod.__dict__.update({'__package__': 'sa.props', '__file__': path, '__name__': modname})
            exec(compile(tree, path, 'exec'), mod.__dict__)
        try:
            mod.run(ctx, report)
            break
        except (core.AnalysisError, NameError, UnboundLocalError) as e:
            if isinstance(e, (NameError, UnboundLocalError)) and attempt == 0:
                raise
            # the top-level statement of run() in which the error surfaced
            tb = e.__traceback__
            line = None
            while tb is not None:
                if tb.tb_frame.f_code.co_filename == path and tb.tb_frame.f_code.co_name == 'run':
                    line = tb.tb_lineno
                tb = tb.tb_next
            body = run_fn.body
            k = next((i for i, st in enumerate(body) if line is not None and st.lineno <= line <= getattr(st, 'end_lineno', st.lineno)), None)
            if k is None:
                raise
            starts = [i for i, st in enumerate(body) if _rule_statement(st)]
            s_ = max((i for i in starts if i <= k), default=None)
            if s_ is None or s_ == k:
                raise                      # before the first rule / in the rule statement itself: nothing to leave out
            e_ = min((i for i in starts if i > k), default=len(body))
            var = _rule_statement(body[s_])
            rid = None
            try:
                rid = ast.literal_eval(body[s_].value.args[0])
            except Exception:  # noqa: BLE001
                rid = var
            reason = f'{type(e).__name__}: {e}'
            skipped.append((str(rid), reason))
            note = ast.parse(f'{var}.floor = None\n{var}.note({("not evaluated on this tree: " + reason)!r})').body
            for n_ in note:
                ast.copy_location(n_, body[s_])
                ast.fix_missing_locations(n_)
            run_fn.body = body[:s_ + 1] + note + body[e_:]
    else:
        raise core.AnalysisError(f'more than 15 rules of {pid} cannot be evaluated on this tree: ' + '; '.join(f'{a}: {b}' for a, b in skipped[:4]))
    if skipped:
        live = [r for r in report.rules if r.instances and r.rid not in {a for a, _ in skipped}]
        if not live:
            raise core.AnalysisError(f'no rule of {pid} can be evaluated on this tree: ' + '; '.join(f'{a}: {b}' for a, b in skipped[:4]))
        report.extra['skipped_rules'] = [{'rule': a, 'reason': b} for a, b in skipped]
        for a, b in skipped:
            print(f'SKIPPED-RULE property={pid} rule={a} reason={b[:300]}')
        # instances of one rule are sometimes recorded by the section of another: with sections left out, instance floors say nothing
        for r in report.rules:
            if r.floor is not None and r.instances < r.floor:
                r.note(f'{r.instances} instance(s), below the floor of {r.floor}: not enforced because rules of this pack were skipped on this tree')
                r.floor = None
    for r in report.rules:
        r.check_floor()
    return report


def main(argv: list[str] | None = None) -> int:
    ap = argparse.ArgumentParser()
    ap.add_argument('pid')
    ap.add_argument('--tier', default=os.environ.get('VERIF_TIER', 'quick'), choices=['quick', 'thorough'])
    ap.add_argument('--root', default=os.environ.get('SA_ROOT', '/repo'))
    ap.add_argument('--replay', default=None)
    ap.add_argument('--no-evidence', action='store_true', help='(self-validation) do not write evidence/replay')
    ap.add_argument('--json', action='store_true', help='(self-validation) print findings as one JSON line')
    args = ap.parse_args(argv)
    pid = args.pid.upper()
    try:
        seed = int(os.environ.get('VERIF_SEED', '0'))
    except ValueError:
        seed = 0
    t0 = time.time()
    ctx = Ctx(args.root, args.tier, seed)
    try:
        if not os.path.isdir(ctx.pkg):
            raise core.AnalysisError(f'no package at {ctx.pkg}')
        report = run_property(pid, ctx)
        selftest = None
        if args.tier == 'thorough' and not args.no_evidence and not args.replay:
            try:
                from . import selftest as st
                selftest = st.run_for(pid, ctx)
            except ImportError:
                selftest = None
    except core.AnalysisError as e:
        print(f'ANALYSIS-ERROR property={pid} {e}')
        return 2
    except Exception as e:  # noqa: BLE001 - a crash of the analyser is never a verdict
        traceback.print_exc()
        print(f'ANALYSIS-ERROR property={pid} internal error: {type(e).__name__}: {e}')
        return 2

    findings = report.findings()
    known, new = core.split_findings(pid, findings)

    if args.json:
        print('JSON ' + json.dumps({'pid': pid, 'new': [f.as_dict() for f in new],
                                    'known': [f.as_dict() for f, _ in known],
                                    'rules': {r.rid: r.instances for r in report.rules}}))
        return 1 if new else 0

    if args.replay:
        with open(args.replay) as fh:
            rep = json.load(fh)
        hit = [f for f in findings if f.rule == rep.get('rule') and f.key == rep.get('key')]
        if hit:
            f = hit[0]
            print(f'REPLAY reproduced: {f.rule} {f.where} {f.key}: {f.message}')
            print(f'VIOLATION property={pid} replay={args.replay}')
            return 1
        print(f'REPLAY not reproduced on {ctx.root}: {rep.get("rule")} {rep.get("key")}')
        return 0

    for r in report.rules:
        status = 'ok' if not r.findings else f'{len(r.findings)} finding(s)'
        print(f'  {r.rid:8s} instances={r.instances:<4d} nontrivial={len(r.nontrivial):<4d} {status}  - {r.title}')
        for n in r.notes:
            print(f'           note: {n}')
    for f, e in known:
        print(f'KNOWN-FINDING: property={pid} {f.rule} {f.where} {f.key}: {f.message}')
    wall = time.time() - t0
    paths = []
    if not args.no_evidence:
        for i, f in enumerate(new):
            paths.append(core.write_replay(pid, i, f, ctx.root))
        core.write_evidence(report, args.tier, seed, wall, len(new), known, new, ctx.root, selftest)
    for i, f in enumerate(new):
        p = paths[i] if paths else '-'
        print(f'  finding: {f.rule} {f.where} [{f.key}] {f.message}')
        print(f'VIOLATION property={pid} replay={p}')
    if selftest is not None:
        print(f'  self-validation: {selftest.get("summary", "")}')
        for w in selftest.get('weak', []):
            print(f'SELFTEST-WEAK {w}')
        for w in selftest.get('noisy', []):
            print(f'SELFTEST-NOISY {w}')
    print(f'{pid}: {"FAIL" if new else "PASS"} rules={len(report.rules)} '
          f'instances={sum(r.instances for r in report.rules)} known={len(known)} new={len(new)} '
          f'wall={wall:.2f}s root={ctx.root}')
    return 1 if new else 0


if __name__ == '__main__':
    rc = main()
    sys.stdout.flush()
    sys.stderr.flush()
    os._exit(rc)
