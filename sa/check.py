"""Driver: /venv/bin/python -m sa.check <ID> [--tier quick|thorough] [--root DIR] [--replay FILE]."""
from __future__ import annotations

import argparse
import importlib
import json
import os
import sys
import time
import traceback

from . import core


class Ctx:
    """Per-run context: lazily built engines over the tree at `root`."""

    def __init__(self, root: str, tier: str, seed: int):
        self.root = os.path.abspath(root)
        self.pkg = os.path.join(self.root, 'soupsieve')
        self.tier = tier
        self.seed = seed
        self._cache: dict = {}

    def get(self, name: str, factory):
        if name not in self._cache:
            self._cache[name] = factory()
        return self._cache[name]

    @property
    def src(self):
        from . import srcmodel
        return self.get('src', lambda: srcmodel.SourceModel(self.pkg))

    @property
    def consts(self):
        from . import constfold
        if 'consts' not in self._cache:
            self._cache['consts'] = constfold.Inventory(self.src)
            if self._cache['consts'].unresolved:
                # compile sites the constant folder cannot read (pattern template and quoting function taken from a table, ...):
                # second stage, by interpreting the enclosing function with marker values
                from .props import sem
                sem.resolve_compile_sites(self)
        return self._cache['consts']

    @property
    def types(self):
        from . import typefacts
        return self.get('types', lambda: typefacts.TypeFacts(self.root))


def run_property(pid: str, ctx: Ctx) -> core.Report:
    mod = importlib.import_module(f'sa.props.{pid.lower()}')
    report = core.Report(pid)
    mod.run(ctx, report)
    for r in report.rules:
        r.check_floor()
    return report


def main(argv: list[str] | None = None) -> int:
    ap = argparse.ArgumentParser()
    ap.add_argument('pid')
    ap.add_argument('--tier', default=os.environ.get('VERIF_TIER', 'quick'), choices=['quick', 'thorough'])
    ap.add_argument('--root', default=os.environ.get('SA_ROOT', '/repo'))
    ap.add_argument('--replay', default=None)
    ap.add_argument('--no-evidence', action='store_true', help='(self-validation) do not write evidence/replay')
    ap.add_argument('--json', action='store_true', help='(self-validation) print findings as one JSON line')
    args = ap.parse_args(argv)
    pid = args.pid.upper()
    try:
        seed = int(os.environ.get('VERIF_SEED', '0'))
    except ValueError:
        seed = 0
    t0 = time.time()
    ctx = Ctx(args.root, args.tier, seed)
    try:
        if not os.path.isdir(ctx.pkg):
            raise core.AnalysisError(f'no package at {ctx.pkg}')
        report = run_property(pid, ctx)
        selftest = None
        if args.tier == 'thorough' and not args.no_evidence and not args.replay:
            try:
                from . import selftest as st
                selftest = st.run_for(pid, ctx)
            except ImportError:
                selftest = None
    except core.AnalysisError as e:
        print(f'ANALYSIS-ERROR property={pid} {e}')
        return 2
    except Exception as e:  # noqa: BLE001 - a crash of the analyser is never a verdict
        traceback.print_exc()
        print(f'ANALYSIS-ERROR property={pid} internal error: {type(e).__name__}: {e}')
        return 2

    findings = report.findings()
    known, new = core.split_findings(pid, findings)

    if args.json:
        print('JSON ' + json.dumps({'pid': pid, 'new': [f.as_dict() for f in new],
                                    'known': [f.as_dict() for f, _ in known],
                                    'rules': {r.rid: r.instances for r in report.rules}}))
        return 1 if new else 0

    if args.replay:
        with open(args.replay) as fh:
            rep = json.load(fh)
        hit = [f for f in findings if f.rule == rep.get('rule') and f.key == rep.get('key')]
        if hit:
            f = hit[0]
            print(f'REPLAY reproduced: {f.rule} {f.where} {f.key}: {f.message}')
            print(f'VIOLATION property={pid} replay={args.replay}')
            return 1
        print(f'REPLAY not reproduced on {ctx.root}: {rep.get("rule")} {rep.get("key")}')
        return 0

    for r in report.rules:
        status = 'ok' if not r.findings else f'{len(r.findings)} finding(s)'
        print(f'  {r.rid:8s} instances={r.instances:<4d} nontrivial={len(r.nontrivial):<4d} {status}  - {r.title}')
        for n in r.notes:
            print(f'           note: {n}')
    for f, e in known:
        print(f'KNOWN-FINDING: property={pid} {f.rule} {f.where} {f.key}: {f.message}')
    wall = time.time() - t0
    paths = []
    if not args.no_evidence:
        for i, f in enumerate(new):
            paths.append(core.write_replay(pid, i, f, ctx.root))
        core.write_evidence(report, args.tier, seed, wall, len(new), known, new, ctx.root, selftest)
    for i, f in enumerate(new):
        p = paths[i] if paths else '-'
        print(f'  finding: {f.rule} {f.where} [{f.key}] {f.message}')
        print(f'VIOLATION property={pid} replay={p}')
    if selftest is not None:
        print(f'  self-validation: {selftest.get("summary", "")}')
        for w in selftest.get('weak', []):
            print(f'SELFTEST-WEAK {w}')
        for w in selftest.get('noisy', []):
            print(f'SELFTEST-NOISY {w}')
    print(f'{pid}: {"FAIL" if new else "PASS"} rules={len(report.rules)} '
          f'instances={sum(r.instances for r in report.rules)} known={len(known)} new={len(new)} '
          f'wall={wall:.2f}s root={ctx.root}')
    return 1 if new else 0


if __name__ == '__main__':
    rc = main()
    sys.stdout.flush()
    sys.stderr.flush()
    os._exit(rc)
