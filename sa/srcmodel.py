"""E1: resolved program model of the soupsieve package (ast only, nothing imported)."""
from __future__ import annotations

import ast
import os
from typing import Iterator

from .core import AnalysisError


class Module:
    def __init__(self, name: str, path: str):
        self.name = name
        self.path = path
        with open(path, encoding='utf-8') as fh:
            self.source = fh.read()
        try:
            self.tree = ast.parse(self.source, filename=path)
        except SyntaxError as e:  # pragma: no cover
            raise AnalysisError(f'{path}: does not parse: {e}')
        self.parents: dict[ast.AST, ast.AST] = {}
        for node in ast.walk(self.tree):
            for ch in ast.iter_child_nodes(node):
                self.parents[ch] = node
        # import aliases: local name -> ('module', dotted) or ('symbol', module, name)
        self.aliases: dict[str, tuple] = {}
        self.functions: dict[str, ast.FunctionDef] = {}   # qualified (without module) -> node
        self.classes: dict[str, ast.ClassDef] = {}
        self.future_annotations = False
        self._index()

    def _index(self) -> None:
        for st in self.tree.body:
            if isinstance(st, ast.ImportFrom):
                if st.module == '__future__':
                    if any(a.name == 'annotations' for a in st.names):
                        self.future_annotations = True
                    continue
                for a in st.names:
                    local = a.asname or a.name
                    if st.level and st.module is None:
                        self.aliases[local] = ('module', a.name, True)       # from . import css_match as cm
                    elif st.level:
                        self.aliases[local] = ('symbol', st.module, a.name, True)  # from .util import X
                    else:
                        self.aliases[local] = ('symbol', st.module, a.name, False)
            elif isinstance(st, ast.Import):
                for a in st.names:
                    self.aliases[a.asname or a.name.split('.')[0]] = ('module', a.name, False)

        def visit(body, prefix):
            for st in body:
                if isinstance(st, (ast.FunctionDef, ast.AsyncFunctionDef)):
                    q = f'{prefix}{st.name}'
                    self.functions[q] = st
                    visit(st.body, q + '.')
                elif isinstance(st, ast.ClassDef):
                    q = f'{prefix}{st.name}'
                    self.classes[q] = st
                    visit(st.body, q + '.')
                elif isinstance(st, (ast.If, ast.Try, ast.With, ast.For, ast.While)):
                    for sub in ast.iter_child_nodes(st):
                        pass
                    for fld in ('body', 'orelse', 'finalbody'):
                        visit(getattr(st, fld, []) or [], prefix)
                    for h in getattr(st, 'handlers', []) or []:
                        visit(h.body, prefix)
        visit(self.tree.body, '')

    def where(self, node: ast.AST) -> str:
        return f'soupsieve/{os.path.basename(self.path)}:{getattr(node, "lineno", 0)}'

    def enclosing_function(self, node: ast.AST) -> str | None:
        """Qualified name (without module) of the innermost function containing node."""
        chain = []
        cur = self.parents.get(node)
        while cur is not None:
            if isinstance(cur, (ast.FunctionDef, ast.AsyncFunctionDef, ast.ClassDef)):
                chain.append(cur.name)
            cur = self.parents.get(cur)
        if not chain:
            return None
        return '.'.join(reversed(chain))

    def module_alias_of(self, name: str) -> str | None:
        """If local `name` is an alias for a sibling module (cm -> css_match), return the module name."""
        a = self.aliases.get(name)
        if a and a[0] == 'module':
            return a[1]
        return None


class SourceModel:
    MODULES = ('__init__', 'css_match', 'css_parser', 'css_types', 'pretty', 'util')

    def __init__(self, pkg_dir: str):
        self.pkg_dir = pkg_dir
        self.mods: dict[str, Module] = {}
        for fn in sorted(os.listdir(pkg_dir)):
            if fn.endswith('.py'):
                name = fn[:-3]
                self.mods[name] = Module(name, os.path.join(pkg_dir, fn))
        for need in self.MODULES:
            if need not in self.mods:
                raise AnalysisError(f'module soupsieve/{need}.py not found (anchor vanished)')

    def mod(self, name: str) -> Module:
        try:
            return self.mods[name]
        except KeyError:
            raise AnalysisError(f'module soupsieve/{name}.py not found (anchor vanished)')

    def func(self, qual: str) -> tuple[Module, ast.FunctionDef]:
        """qual = 'css_match.CSSMatch.match_nth'."""
        m, _, rest = qual.partition('.')
        mod = self.mod(m)
        fn = mod.functions.get(rest)
        if fn is None:
            raise AnalysisError(f'function {qual} not found (anchor vanished)')
        return mod, fn

    def try_func(self, qual: str):
        try:
            return self.func(qual)
        except AnalysisError:
            return None

    def cls(self, qual: str) -> tuple[Module, ast.ClassDef]:
        m, _, rest = qual.partition('.')
        mod = self.mod(m)
        c = mod.classes.get(rest)
        if c is None:
            raise AnalysisError(f'class {qual} not found (anchor vanished)')
        return mod, c

    def all_functions(self) -> Iterator[tuple[str, Module, ast.FunctionDef]]:
        for mn, mod in self.mods.items():
            for q, fn in mod.functions.items():
                yield f'{mn}.{q}', mod, fn

    # ---- class hierarchy -------------------------------------------------------------------------
    def resolve_class_ref(self, mod: Module, expr: ast.AST) -> str | None:
        """Resolve a base-class / constructor expression to 'module.Class' inside the package."""
        if isinstance(expr, ast.Name):
            if expr.id in mod.classes:
                return f'{mod.name}.{expr.id}'
            a = mod.aliases.get(expr.id)
            if a and a[0] == 'symbol' and a[-1] is True and a[1] in self.mods and a[2] in self.mods[a[1]].classes:
                return f'{a[1]}.{a[2]}'
            return None
        if isinstance(expr, ast.Attribute) and isinstance(expr.value, ast.Name):
            target = mod.module_alias_of(expr.value.id)
            if target in self.mods and expr.attr in self.mods[target].classes:
                return f'{target}.{expr.attr}'
        if isinstance(expr, ast.Subscript):
            return self.resolve_class_ref(mod, expr.value)
        return None

    def bases(self, qual: str) -> list[str]:
        mod, c = self.cls(qual)
        out = []
        for b in c.bases:
            r = self.resolve_class_ref(mod, b)
            if r:
                out.append(r)
        return out

    def mro(self, qual: str) -> list[str]:
        cache = self.__dict__.setdefault('_mro_cache', {})
        if qual in cache:
            return cache[qual]
        out, todo = [], [qual]
        while todo:
            q = todo.pop(0)
            if q in out:
                continue
            out.append(q)
            todo.extend(self.bases(q))
        cache[qual] = out
        return out

    def subclasses(self, qual: str) -> list[str]:
        out = []
        for mn, mod in self.mods.items():
            for cn in mod.classes:
                q = f'{mn}.{cn}'
                if q != qual and qual in self.mro(q):
                    out.append(q)
        return out

    def find_method(self, cls_qual: str, name: str) -> str | None:
        """Qualified function name of method `name` looked up through the MRO."""
        fcache = self.__dict__.setdefault('_find_method_cache', {})
        if (cls_qual, name) in fcache:
            return fcache[(cls_qual, name)]
        fcache[(cls_qual, name)] = r = self._find_method(cls_qual, name)
        return r

    def _find_method(self, cls_qual: str, name: str) -> str | None:
        for c in self.mro(cls_qual):
            mn, _, cn = c.partition('.')
            if f'{cn}.{name}' in self.mods[mn].functions:
                return f'{mn}.{cn}.{name}'
        return None


def unparse(node: ast.AST) -> str:
    return ast.unparse(node)


def walk_no_nested(fn: ast.AST) -> Iterator[ast.AST]:
    """Walk a function body without descending into nested function/class definitions."""
    todo = list(ast.iter_child_nodes(fn))
    while todo:
        n = todo.pop()
        yield n
        if isinstance(n, (ast.FunctionDef, ast.AsyncFunctionDef, ast.ClassDef, ast.Lambda)):
            continue
        todo.extend(ast.iter_child_nodes(n))


def calls_in(node: ast.AST, nested: bool = True) -> Iterator[ast.Call]:
    it = ast.walk(node) if nested else walk_no_nested(node)
    for n in it:
        if isinstance(n, ast.Call):
            yield n


def call_name(call: ast.Call) -> str:
    """Dotted textual name of the callee ('self.get_parent', 'util.lower', 're.compile')."""
    f = call.func
    parts = []
    while isinstance(f, ast.Attribute):
        parts.append(f.attr)
        f = f.value
    if isinstance(f, ast.Name):
        parts.append(f.id)
    elif isinstance(f, ast.Call):
        parts.append(call_name(f) + '()')
    else:
        parts.append('<expr>')
    return '.'.join(reversed(parts))
