"""E2: constant folding of module-level bindings and the regex inventory (nothing imported from soupsieve)."""
from __future__ import annotations

import ast
import re
from dataclasses import dataclass, field
from typing import Any

from .core import AnalysisError
from .srcmodel import Module, SourceModel, call_name, unparse


class Unfoldable(Exception):
    pass


@dataclass(frozen=True)
class ClassRef:
    qual: str


@dataclass(frozen=True)
class Opaque:
    """A run-time value that is escaped literal text (re.escape(...)) inside a pattern template."""
    text: str


PURE_STR_METHODS = {'format', 'join', 'replace', 'strip', 'lstrip', 'rstrip', 'lower', 'upper', 'split', 'rsplit', 'partition', 'rpartition',
                    'startswith', 'endswith', 'removeprefix', 'removesuffix', 'title', 'get', 'keys', 'values', 'items', 'count', 'index',
                    'zfill', 'center', 'ljust', 'rjust', 'casefold', 'capitalize', 'swapcase', 'translate', 'expandtabs', 'splitlines',
                    'union', 'intersection', 'difference'}
PURE_BUILTINS = {'len': len, 'str': str, 'int': int, 'tuple': tuple, 'list': list, 'frozenset': frozenset, 'set': frozenset, 'dict': dict,
                 'sorted': sorted, 'chr': chr, 'min': min, 'max': max, 'sum': sum, 'bool': bool, 'repr': repr, 'abs': abs, 'zip': zip,
                 'enumerate': enumerate, 'range': range, 'reversed': reversed, 'hex': hex}


class Folder:
    """Evaluates side-effect-free constant expressions over the module environments."""

    def __init__(self, src: SourceModel):
        self.src = src
        self.env: dict[str, dict[str, Any]] = {m: {} for m in src.mods}
        self.env_nodes: dict[str, dict[str, ast.AST]] = {m: {} for m in src.mods}
        self._folding: set[tuple[str, str]] = set()
        for mn, mod in src.mods.items():
            for st in mod.tree.body:
                tgt = None
                if isinstance(st, ast.Assign) and len(st.targets) == 1 and isinstance(st.targets[0], ast.Name):
                    tgt, val = st.targets[0].id, st.value
                elif isinstance(st, ast.AnnAssign) and isinstance(st.target, ast.Name) and st.value is not None:
                    tgt, val = st.target.id, st.value
                if tgt is not None:
                    self.env_nodes[mn][tgt] = val

    def lookup(self, mn: str, name: str) -> Any:
        if name in self.env[mn]:
            return self.env[mn][name]
        node = self.env_nodes[mn].get(name)
        if node is None:
            mod = self.src.mods[mn]
            a = mod.aliases.get(name)
            if a and a[0] == 'symbol' and a[-1] is True and a[1] in self.src.mods:
                return self.lookup(a[1], a[2])
            if name in mod.classes:
                return ClassRef(f'{mn}.{name}')
            raise Unfoldable(f'{mn}.{name} is not a module-level constant')
        if (mn, name) in self._folding:
            raise Unfoldable(f'cyclic constant {mn}.{name}')
        self._folding.add((mn, name))
        try:
            v = self.ev(mn, node)
        finally:
            self._folding.discard((mn, name))
        self.env[mn][name] = v
        return v

    def ev(self, mn: str, n: ast.AST, local: dict[str, Any] | None = None) -> Any:
        local = local or {}
        if isinstance(n, ast.Constant):
            return n.value
        if isinstance(n, ast.Name):
            if n.id in local:
                return local[n.id]
            if n.id in ('True', 'False', 'None'):
                return {'True': True, 'False': False, 'None': None}[n.id]
            return self.lookup(mn, n.id)
        if isinstance(n, ast.JoinedStr):
            out = []
            for v in n.values:
                if isinstance(v, ast.Constant):
                    out.append(v.value)
                elif isinstance(v, ast.FormattedValue):
                    if v.conversion != -1 or v.format_spec is not None:
                        raise Unfoldable('formatted value with conversion/spec')
                    val = self.ev(mn, v.value, local)
                    if isinstance(val, Opaque):
                        out.append(val)
                    else:
                        out.append(str(val))
            if any(isinstance(o, Opaque) for o in out):
                return tuple(out)
            return ''.join(out)
        if isinstance(n, ast.BinOp):
            left, right = self.ev(mn, n.left, local), self.ev(mn, n.right, local)
            if isinstance(n.op, ast.Mod) and isinstance(left, str):
                if isinstance(right, Opaque):
                    parts = left.split('%s')
                    if len(parts) != 2 or '%' in left.replace('%s', ''):
                        raise Unfoldable('template with more than one placeholder')
                    return (parts[0], right, parts[1])
                return left % right
            if isinstance(left, Opaque) or isinstance(right, Opaque):
                raise Unfoldable('opaque operand')
            if isinstance(n.op, ast.Add):
                return left + right
            if isinstance(n.op, ast.BitOr):
                return left | right
            if isinstance(n.op, ast.BitAnd):
                return left & right
            if isinstance(n.op, ast.Sub):
                return left - right
            if isinstance(n.op, ast.Mult):
                return left * right
            if isinstance(n.op, ast.Mod):
                return left % right
            if isinstance(n.op, (ast.LShift, ast.RShift, ast.BitXor, ast.FloorDiv, ast.Pow)) and isinstance(left, int) and isinstance(right, int) \
                    and not isinstance(left, bool) and 0 <= right < 256:
                return {ast.LShift: lambda: left << right, ast.RShift: lambda: left >> right, ast.BitXor: lambda: left ^ right,
                        ast.FloorDiv: lambda: left // right if right else (_ for _ in ()).throw(Unfoldable('division by zero')),
                        ast.Pow: lambda: left ** right}[type(n.op)]()
            raise Unfoldable(f'operator {type(n.op).__name__}')
        if isinstance(n, ast.UnaryOp):
            v = self.ev(mn, n.operand, local)
            if isinstance(n.op, ast.USub):
                return -v
            if isinstance(n.op, ast.Invert):
                return ~v
            if isinstance(n.op, ast.Not):
                return not v
            raise Unfoldable('unary')
        if isinstance(n, ast.Attribute):
            if isinstance(n.value, ast.Name):
                base = n.value.id
                mod = self.src.mods[mn]
                a = mod.aliases.get(base)
                if a and a[0] == 'module' and a[1] == 're' and not a[2]:
                    v = getattr(re, n.attr, None)
                    if isinstance(v, (int, re.RegexFlag)):
                        return int(v)
                    raise Unfoldable(f're.{n.attr}')
                if a and a[0] == 'module' and a[2] and a[1] in self.src.mods:
                    return self.lookup(a[1], n.attr)
            raise Unfoldable(f'attribute {unparse(n)}')
        if isinstance(n, (ast.Tuple, ast.List, ast.Set)):
            out_ = []
            for e in n.elts:
                if isinstance(e, ast.Starred):
                    v_ = self.ev(mn, e.value, local)
                    if not isinstance(v_, (tuple, list, frozenset, str, dict)):
                        raise Unfoldable('starred value')
                    out_.extend(v_)
                else:
                    out_.append(self.ev(mn, e, local))
            return frozenset(out_) if isinstance(n, ast.Set) else tuple(out_)
        if isinstance(n, ast.Dict):
            d_ = {}
            for k, v in zip(n.keys, n.values):
                if k is None:
                    v_ = self.ev(mn, v, local)
                    if not isinstance(v_, dict):
                        raise Unfoldable('** of a non-dict')
                    d_.update(v_)
                else:
                    d_[self.ev(mn, k, local)] = self.ev(mn, v, local)
            return d_
        if isinstance(n, ast.Call):
            cn = call_name(n)
            if cn == 'ord' and len(n.args) == 1:
                return ord(self.ev(mn, n.args[0], local))
            if cn == 're.escape' and len(n.args) == 1:
                return Opaque(unparse(n.args[0]))
            # pure operations on constants: str methods (incl. format), a few builtins
            if isinstance(n.func, ast.Attribute) and n.func.attr in PURE_STR_METHODS:
                recv = self.ev(mn, n.func.value, local)
                if isinstance(recv, (str, tuple, frozenset, dict)) and not isinstance(recv, Opaque):
                    args = [self.ev(mn, a, local) for a in n.args]
                    kw = {k.arg: self.ev(mn, k.value, local) for k in n.keywords if k.arg}
                    if any(isinstance(x, Opaque) for x in list(args) + list(kw.values())):
                        raise Unfoldable('opaque argument')
                    try:
                        r = getattr(recv, n.func.attr)(*args, **kw)
                    except Exception as e:  # noqa: BLE001
                        raise Unfoldable(f'{n.func.attr}: {e}')
                    return tuple(r) if isinstance(r, list) else r
            if isinstance(n.func, ast.Name) and n.func.id in PURE_BUILTINS and n.func.id not in self.env_nodes.get(mn, {}):
                if any(isinstance(a, ast.Starred) for a in n.args) or any(k.arg is None for k in n.keywords):
                    raise Unfoldable('starred argument')
                args = [self.ev(mn, a, local) for a in n.args]
                kw = {k.arg: self.ev(mn, k.value, local) for k in n.keywords}
                if any(isinstance(x, Opaque) for x in list(args) + list(kw.values())):
                    raise Unfoldable('opaque argument')
                try:
                    r = PURE_BUILTINS[n.func.id](*args, **kw)
                except Exception as e:  # noqa: BLE001
                    raise Unfoldable(f'{n.func.id}: {e}')
                return tuple(r) if isinstance(r, list) else r
            raise Unfoldable(f'call {cn}')
        if isinstance(n, ast.Subscript):
            base = self.ev(mn, n.value, local)
            if isinstance(base, Opaque):
                raise Unfoldable('subscript of an opaque value')
            try:
                if isinstance(n.slice, ast.Slice):
                    lo = self.ev(mn, n.slice.lower, local) if n.slice.lower is not None else None
                    hi = self.ev(mn, n.slice.upper, local) if n.slice.upper is not None else None
                    st = self.ev(mn, n.slice.step, local) if n.slice.step is not None else None
                    return base[lo:hi:st]
                return base[self.ev(mn, n.slice, local)]
            except (KeyError, IndexError, TypeError) as e:
                raise Unfoldable(f'subscript: {e}')
        if isinstance(n, ast.IfExp):
            return self.ev(mn, n.body, local) if self.ev(mn, n.test, local) else self.ev(mn, n.orelse, local)
        if isinstance(n, ast.Compare) and len(n.ops) == 1:
            a, b = self.ev(mn, n.left, local), self.ev(mn, n.comparators[0], local)
            ops = {ast.Eq: lambda: a == b, ast.NotEq: lambda: a != b, ast.In: lambda: a in b, ast.NotIn: lambda: a not in b,
                   ast.Lt: lambda: a < b, ast.LtE: lambda: a <= b, ast.Gt: lambda: a > b, ast.GtE: lambda: a >= b,
                   ast.Is: lambda: a is b, ast.IsNot: lambda: a is not b}
            f = ops.get(type(n.ops[0]))
            if f is not None:
                return f()
        if isinstance(n, ast.BoolOp):
            vals = [self.ev(mn, v, local) for v in n.values]
            out = vals[0]
            for v in vals[1:]:
                out = (out and v) if isinstance(n.op, ast.And) else (out or v)
            return out
        if isinstance(n, (ast.ListComp, ast.GeneratorExp, ast.SetComp, ast.DictComp)) and len(n.generators) == 1 \
                and isinstance(n.generators[0].target, (ast.Name, ast.Tuple)):
            g = n.generators[0]
            out = []
            for item in self.ev(mn, g.iter, local):
                loc = dict(local)
                if isinstance(g.target, ast.Name):
                    loc[g.target.id] = item
                else:
                    for t, v in zip(g.target.elts, item):
                        if not isinstance(t, ast.Name):
                            raise Unfoldable('comprehension target')
                        loc[t.id] = v
                if all(self.ev(mn, c, loc) for c in g.ifs):
                    out.append((self.ev(mn, n.key, loc), self.ev(mn, n.value, loc)) if isinstance(n, ast.DictComp) else self.ev(mn, n.elt, loc))
            if isinstance(n, ast.DictComp):
                return dict(out)
            return frozenset(out) if isinstance(n, ast.SetComp) else tuple(out)
        if isinstance(n, ast.Starred):
            raise Unfoldable('starred')
        raise Unfoldable(type(n).__name__)

    def try_ev(self, mn: str, n: ast.AST, local=None, default=None):
        try:
            return self.ev(mn, n, local)
        except (Unfoldable, TypeError, ValueError, KeyError):
            return default


@dataclass
class Rx:
    name: str                 # 'css_parser.RE_NTH', 'token:pseudo_close', 'attr-template:^'
    pattern: Any              # str, or tuple(str, Opaque, str) for templates
    flags: int
    module: str
    where: str
    kind: str                 # 'module', 'token', 'special-token', 'instance', 'template', 'derived'
    node: ast.AST | None = None
    func: str | None = None   # enclosing function for non-module-level sites
    applies_to: str = ''      # 'selector', 'document', 'repr', 'pattern-text'
    uses: list = field(default_factory=list)   # (method, where, func)

    @property
    def is_template(self) -> bool:
        return not isinstance(self.pattern, str)

    def instantiate(self, literal: str) -> str:
        if isinstance(self.pattern, str):
            return self.pattern
        return ''.join(re.escape(literal) if isinstance(p, Opaque) else p for p in self.pattern)


RE_METHODS = {'match', 'search', 'sub', 'subn', 'finditer', 'findall', 'fullmatch', 'split'}


class Inventory:
    """All regexes of the package with their folded source and flags."""

    def __init__(self, src: SourceModel):
        self.src = src
        self.folder = Folder(src)
        self.regexes: list[Rx] = []
        self.unresolved: list[tuple[str, str, str]] = []   # (where, func, text) re.compile sites not folded
        self.pattern_classes: dict[str, tuple[int, int, str]] = {}   # class qual -> (param index, flags, attr)
        self.token_order: list[str] = []
        self._collect()

    # -------------------------------------------------------------------------------------------
    def const(self, mn: str, name: str) -> Any:
        try:
            return self.folder.lookup(mn, name)
        except Unfoldable as e:
            raise AnalysisError(f'constant {mn}.{name} cannot be folded: {e}')

    def by_name(self, name: str) -> Rx:
        for r in self.regexes:
            if r.name == name:
                return r
        raise AnalysisError(f'regex {name} not in the inventory (anchor vanished)')

    def find(self, name: str) -> Rx | None:
        for r in self.regexes:
            if r.name == name:
                return r
        return None

    # -------------------------------------------------------------------------------------------
    def _is_re_compile(self, mod: Module, call: ast.Call) -> bool:
        f = call.func
        if isinstance(f, ast.Attribute) and f.attr == 'compile' and isinstance(f.value, ast.Name):
            a = mod.aliases.get(f.value.id)
            return bool(a and a[0] == 'module' and a[1] == 're')
        return False

    def _collect(self) -> None:
        src = self.src
        # 1. pattern classes: __init__ passes a parameter to re.compile with constant flags
        for mn, mod in src.mods.items():
            for cq, cnode in mod.classes.items():
                init = mod.functions.get(f'{cq}.__init__')
                if init is None:
                    continue
                params = [a.arg for a in init.args.args]
                for call in [c for c in ast.walk(init) if isinstance(c, ast.Call)]:
                    if self._is_re_compile(mod, call) and call.args and isinstance(call.args[0], ast.Name) \
                            and call.args[0].id in params:
                        flags = self.folder.try_ev(mn, call.args[1], default=None) if len(call.args) > 1 else 0
                        if flags is None:
                            raise AnalysisError(f'{mod.where(call)}: non-constant flags in pattern class {cq}')
                        self.pattern_classes[f'{mn}.{cq}'] = (params.index(call.args[0].id) - 1, int(flags), cq)

        handled: set[int] = set()
        for mn, mod in src.mods.items():
            # 2. every re.compile call site
            for call in [c for c in ast.walk(mod.tree) if isinstance(c, ast.Call)]:
                if not self._is_re_compile(mod, call):
                    continue
                func = mod.enclosing_function(call)
                parent = mod.parents.get(call)
                flags = 0
                if len(call.args) > 1:
                    flags = self.folder.try_ev(mn, call.args[1], default=None)
                for kw in call.keywords:
                    if kw.arg == 'flags':
                        flags = self.folder.try_ev(mn, kw.value, default=None)
                # pattern class __init__ handled through instantiations
                if func and func.endswith('.__init__') and isinstance(call.args[0], ast.Name) and \
                        f'{mn}.{func[:-9]}' in self.pattern_classes:
                    continue
                target = None
                if isinstance(parent, ast.Assign) and len(parent.targets) == 1:
                    target = unparse(parent.targets[0])
                pat = self.folder.try_ev(mn, call.args[0], default=None) if call.args else None
                if isinstance(pat, tuple) and not (len(pat) == 3 and isinstance(pat[1], Opaque)):
                    pat = None
                if pat is not None and func is None and flags is not None and isinstance(pat, str):
                    self.regexes.append(Rx(f'{mn}.{target}', pat, int(flags), mn, mod.where(call), 'module', call))
                    continue
                if pat is not None and isinstance(pat, str) and flags is not None:
                    self.regexes.append(Rx(f'{mn}.{func}:{target}', pat, int(flags), mn, mod.where(call),
                                           'instance', call, func))
                    continue
                if pat is not None and isinstance(pat, tuple):
                    # template with one opaque (re.escape) hole; flags may be run-time (analysed under all used)
                    self.regexes.append(Rx(f'{mn}.{func}:template:{pat[0]}..{pat[2]}', pat,
                                           int(flags) if flags is not None else -1, mn, mod.where(call),
                                           'template', call, func))
                    continue
                # `%`-template whose hole is a local that is re.escape(...) or a constant pattern on every path
                tpl = self._local_template(mn, mod, call, func)
                if tpl is not None:
                    for i, t in enumerate(tpl):
                        self.regexes.append(Rx(f'{mn}.{func}:template:{t[0]}..{t[-1]}#{i}', t,
                                               int(flags) if flags is not None else -1, mn, mod.where(call),
                                               'template', call, func))
                    continue
                # re.compile(<compiled>.pattern): a recompilation of an inventoried regex
                a0 = call.args[0] if call.args else None
                if isinstance(a0, ast.Attribute) and a0.attr == 'pattern':
                    self.regexes.append(Rx(f'{mn}.{func}:derived:{unparse(a0)}', None, int(flags or 0), mn,
                                           mod.where(call), 'derived', call, func))
                    continue
                self.unresolved.append((mod.where(call), f'{mn}.{func}', unparse(call)))

            # 2b. re.match(PATTERN, text, flags) ...: the module-level functions applied to a constant pattern text
            a_re = mod.aliases.get('re')
            if a_re and a_re[0] == 'module' and a_re[1] == 're':
                for call in [c for c in ast.walk(mod.tree) if isinstance(c, ast.Call)]:
                    f = call.func
                    if not (isinstance(f, ast.Attribute) and isinstance(f.value, ast.Name) and f.value.id == 're'
                            and f.attr in ('match', 'search', 'fullmatch', 'finditer', 'findall', 'split', 'sub', 'subn')) or not call.args:
                        continue
                    pat = self.folder.try_ev(mn, call.args[0], default=None)
                    fpos = {'split': 3, 'sub': 4, 'subn': 4}.get(f.attr, 2)
                    flags = 0
                    if len(call.args) > fpos:
                        flags = self.folder.try_ev(mn, call.args[fpos], default=None)
                    for kw in call.keywords:
                        if kw.arg == 'flags':
                            flags = self.folder.try_ev(mn, kw.value, default=None)
                    func = mod.enclosing_function(call)
                    if isinstance(pat, str) and flags is not None:
                        r_ = Rx(f'{mn}.{func}:direct:{f.attr}@{call.lineno}', pat, int(flags), mn, mod.where(call), 'instance', call, func)
                        r_.uses.append((f.attr, mod.where(call), func))
                        self.regexes.append(r_)
                    else:
                        self.unresolved.append((mod.where(call), f'{mn}.{func}', unparse(call)))

            # 3. instantiations of pattern classes with constant arguments
            for call in [c for c in ast.walk(mod.tree) if isinstance(c, ast.Call)]:
                cref = src.resolve_class_ref(mod, call.func)
                if cref is None:
                    continue
                if cref in self.pattern_classes:
                    idx, flags, _ = self.pattern_classes[cref]
                    if len(call.args) <= idx:
                        continue
                    pat = self.folder.try_ev(mn, call.args[idx], default=None)
                    nm = self.folder.try_ev(mn, call.args[0], default=None)
                    if not isinstance(pat, str) or not isinstance(nm, str):
                        # the dynamic instantiation inside a table-driven pattern class
                        continue
                    self.regexes.append(Rx(f'token:{nm}', pat, flags, mn, mod.where(call), 'token', call,
                                           mod.enclosing_function(call)))
                    self.token_order.append(nm)
                else:
                    # table-driven pattern class: every 4-tuple (name, names, pattern, class)
                    mro = src.mro(cref)
                    if any(c in self.pattern_classes for c in mro[1:]) and call.args:
                        table = self.folder.try_ev(mn, call.args[0], default=None)
                        if not isinstance(table, tuple):
                            raise AnalysisError(f'{mod.where(call)}: table of {cref} is not constant')
                        self._check_table_class(cref)
                        names = []
                        for row in table:
                            if not (isinstance(row, tuple) and len(row) == 4 and isinstance(row[3], ClassRef)
                                    and row[3].qual in self.pattern_classes and isinstance(row[2], str)):
                                raise AnalysisError(f'{mod.where(call)}: unsupported row in table of {cref}')
                            _, flags, _ = self.pattern_classes[row[3].qual]
                            self.regexes.append(Rx(f'token:{row[0]}', row[2], flags, mn, mod.where(call),
                                                   'special-token', call, mod.enclosing_function(call)))
                            names.append(row[0])
                        self.token_order.append('special:' + '|'.join(names))
                        self.special_table = table
        if not self.regexes:
            raise AnalysisError('regex inventory is empty')

    def _check_table_class(self, cref: str) -> None:
        """The table-driven class must build its sub-patterns as row[3](row[0], row[2]) (shape check)."""
        mn, _, cn = cref.partition('.')
        mod = self.src.mods[mn]
        init = mod.functions.get(f'{cn}.__init__')
        if init is None:
            raise AnalysisError(f'{cref}.__init__ not found')
        ok = False
        for call in [c for c in ast.walk(init) if isinstance(c, ast.Call)]:
            if isinstance(call.func, ast.Subscript) and len(call.args) == 2:
                idx = self.folder.try_ev(mn, call.func.slice, default=None)
                a1 = call.args[1]
                i1 = self.folder.try_ev(mn, a1.slice, default=None) if isinstance(a1, ast.Subscript) else None
                if idx == 3 and i1 == 2:
                    ok = True
        if not ok:
            raise AnalysisError(f'{cref}.__init__: table rows are no longer instantiated as row[3](name, row[2])')

    def _local_template(self, mn: str, mod: Module, call: ast.Call, func: str | None):
        """`re.compile(CONST % v, flags)` where local v is assigned re.escape(x) or a constant string on every
        definition in the enclosing function (possibly through a conditional expression)."""
        if not call.args or func is None:
            return None
        a0 = call.args[0]
        if not (isinstance(a0, ast.BinOp) and isinstance(a0.op, ast.Mod)):
            return None
        fmt = self.folder.try_ev(mn, a0.left, default=None)
        if not isinstance(fmt, str) or fmt.count('%s') != 1 or '%' in fmt.replace('%s', ''):
            return None
        alts: list[Any] = []
        if not isinstance(a0.right, ast.Name):
            # hole given inline, e.g. `(re.escape(value) if value else r'[^\s\S]')`
            def add_inline(v: ast.AST) -> bool:
                if isinstance(v, ast.IfExp):
                    return add_inline(v.body) and add_inline(v.orelse)
                val = self.folder.try_ev(mn, v, default=None)
                if isinstance(val, (str, Opaque)):
                    alts.append(val)
                    return True
                return False
            if not add_inline(a0.right):
                return None
            a, b = fmt.split('%s')
            return [(a, v, b) if isinstance(v, Opaque) else (a + v + b,) for v in alts]
        def reaching(use: ast.AST, var: str):
            """The single assignment to `var` that reaches `use`: the closest preceding assignment in the enclosing blocks,
            provided no statement in between assigns the name conditionally (None otherwise)."""
            cur: ast.AST = use
            while True:
                while not isinstance(cur, ast.stmt):
                    cur = mod.parents[cur]
                par = mod.parents.get(cur)
                if par is None or isinstance(cur, (ast.FunctionDef, ast.AsyncFunctionDef)):
                    return None
                body = None
                for fld in ('body', 'orelse', 'finalbody'):
                    if cur in getattr(par, fld, []):
                        body = getattr(par, fld)
                if isinstance(par, (ast.For, ast.While)) and any(
                        isinstance(x, ast.Name) and x.id == var and isinstance(x.ctx, ast.Store) for x in ast.walk(par)):
                    return None         # a definition may arrive around the back edge
                if body is None:
                    return None
                for st in reversed(body[:body.index(cur)]):
                    if isinstance(st, ast.Assign) and len(st.targets) == 1 and isinstance(st.targets[0], ast.Name) \
                            and st.targets[0].id == var:
                        return st
                    if any(isinstance(x, ast.Name) and x.id == var and isinstance(x.ctx, ast.Store) for x in ast.walk(st)):
                        return None
                cur = par

        def add(v: ast.AST, use: ast.AST, depth: int = 0) -> bool:
            if isinstance(v, ast.IfExp):
                return add(v.body, use, depth) and add(v.orelse, use, depth)
            val = self.folder.try_ev(mn, v, default=None)
            if isinstance(val, (str, Opaque)):
                alts.append(val)
                return True
            if isinstance(v, ast.Name) and depth < 3:
                d = reaching(use, v.id)
                if d is not None:
                    return add(d.value, d, depth + 1)
            return False
        if not add(a0.right, call):
            return None
        a, b = fmt.split('%s')
        return [(a, v, b) if isinstance(v, Opaque) else (a + v + b,) for v in alts]
