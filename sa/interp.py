"""Partial evaluation of package functions over finite abstract inputs with recording stubs.

`Interp` extends the small evaluator of sa.miniev so that a handler or predicate of the package can be interpreted
*from its AST* on abstract inputs: attribute bags (`Obj`), recording stubs for collaborators, and the package's own
helper functions / methods, which are resolved and interpreted recursively.  Nothing of soupsieve is imported or run by
the Python interpreter itself; an unsupported construct raises `Unsupported` (the caller reports ANALYSIS-ERROR).

Rules use it to extract *decision tables*: for every abstract case of the inputs, what does the function return / record?
"""
from __future__ import annotations

import ast

from . import miniev
from .miniev import MiniEval, Return, Sym, Unsupported


class Obj:
    """Attribute bag standing for an object of the analysed program (or one of its collaborators)."""

    def __init__(self, _cls=None, _name='obj', **fields):
        object.__setattr__(self, '_cls', _cls)
        object.__setattr__(self, '_name', _name)
        object.__setattr__(self, '_fields', dict(fields))
        object.__setattr__(self, '_constructed', False)

    def get(self, name):
        f = object.__getattribute__(self, '_fields')
        if name in f:
            return f[name]
        raise KeyError(name)

    def set(self, name, value):
        object.__getattribute__(self, '_fields')[name] = value

    def has(self, name):
        return name in object.__getattribute__(self, '_fields')

    def __repr__(self):
        return f'<{object.__getattribute__(self, "_name")}>'

    # objects that model bs4 tags carry an __eq_key__ (their markup): like bs4, they hash and compare by it, so that a
    # dict or set keyed by tags behaves as it would at run time; everything else compares by identity
    def __hash__(self):
        k = object.__getattribute__(self, '_fields').get('__eq_key__')
        return hash(k) if k is not None else id(self)

    def __eq__(self, other):
        if self is other:
            return True
        if isinstance(other, Obj):
            k = object.__getattribute__(self, '_fields').get('__eq_key__')
            return k is not None and k == object.__getattribute__(other, '_fields').get('__eq_key__')
        return NotImplemented

    def __ne__(self, other):
        r = self.__eq__(other)
        return r if r is NotImplemented else not r

    def __bool__(self):
        f = object.__getattribute__(self, '_fields')
        return bool(f['__bool__']) if '__bool__' in f else True

    def __len__(self):
        f = object.__getattribute__(self, '_fields')
        if '__len__' in f:
            return f['__len__']
        raise TypeError('len() of an abstract object')

    def __iter__(self):
        f = object.__getattribute__(self, '_fields')
        if '__iter__' in f:
            return iter(f['__iter__'])
        raise TypeError('iteration over an abstract object')

    def __getitem__(self, i):
        f = object.__getattribute__(self, '_fields')
        if '__iter__' in f:
            return f['__iter__'][i]
        raise TypeError('subscript of an abstract object')


class ModRef:
    def __init__(self, name):
        self.name = name


class PkgFunc:
    def __init__(self, mod, fn, cls=None, bound=None):
        self.mod, self.fn, self.cls, self.bound = mod, fn, cls, bound


class PkgClass:
    def __init__(self, qual):
        self.qual = qual

    def __eq__(self, other):
        return isinstance(other, PkgClass) and other.qual == self.qual

    def __hash__(self):
        return hash(('PkgClass', self.qual))

    def __repr__(self):
        return f'<class {self.qual}>'


class Closure:
    def __init__(self, fn, owner):
        self.fn, self.owner = fn, owner


class Partial:
    """functools.partial over an interpreted callable."""
    def __init__(self, callee, args, kwargs):
        self.callee, self.args, self.kwargs = callee, tuple(args), dict(kwargs)


def _memo_identity(*a, **k):
    """functools.lru_cache / cache in call form: memoisation is the identity for the evaluator (results are recomputed).
    lru_cache(maxsize=..)(f) and lru_cache(f) both give f; the object keeps a no-op cache_clear through the evaluator's getattr."""
    if len(a) == 1 and not k and not isinstance(a[0], (int, type(None))):
        return a[0]
    return lambda f: f


def _external_table():
    import functools
    import itertools
    import operator
    return {
        'itertools.chain': itertools.chain, 'itertools.chain.from_iterable': itertools.chain.from_iterable,
        'itertools.islice': itertools.islice, 'itertools.product': itertools.product, 'itertools.repeat': itertools.repeat,
        'itertools.takewhile': None, 'itertools.dropwhile': None, 'itertools.count': itertools.count,
        'itertools.zip_longest': itertools.zip_longest, 'itertools.accumulate': None,
        'operator.itemgetter': operator.itemgetter, 'operator.eq': operator.eq, 'operator.ne': operator.ne, 'operator.lt': operator.lt,
        'operator.le': operator.le, 'operator.gt': operator.gt, 'operator.ge': operator.ge, 'operator.not_': operator.not_,
        'operator.is_': operator.is_, 'operator.is_not': operator.is_not, 'operator.add': operator.add, 'operator.or_': operator.or_,
        'operator.and_': operator.and_, 'operator.contains': operator.contains,
        'functools.reduce': functools.reduce,
        'unicodedata.bidirectional': __import__('unicodedata').bidirectional, 'unicodedata.category': __import__('unicodedata').category,
        'warnings.warn': (lambda *a, **k: None),
        'datetime.datetime': __import__('datetime').datetime, 'datetime.date': __import__('datetime').date,
        **{f'math.{n_}': getattr(__import__('math'), n_) for n_ in ('isfinite', 'isinf', 'isnan', 'floor', 'ceil', 'trunc', 'fabs', 'copysign', 'sqrt', 'log10', 'log', 'pow',
                                                                     'gcd', 'fmod', 'modf', 'frexp', 'ldexp')},
        **{f'unicodedata.{n_}': getattr(__import__('unicodedata'), n_) for n_ in ('name', 'east_asian_width', 'normalize', 'combining', 'decimal', 'digit', 'numeric',
                                                                                   'mirrored', 'lookup')},
        'functools.lru_cache': _memo_identity, 'functools.cache': _memo_identity,
        'textwrap.dedent': __import__('textwrap').dedent, 'textwrap.indent': __import__('textwrap').indent,
    }


EXTERNAL = _external_table()
EXTERNAL_CONSTANTS = {'math.inf': float('inf'), 'math.nan': float('nan'), 'math.pi': 3.141592653589793, 'math.e': 2.718281828459045, 'datetime.MAXYEAR': 9999, 'datetime.MINYEAR': 1, 'sys.maxunicode': 0x10FFFF, 'sys.maxsize': 2 ** 63 - 1}
HIGHER_ORDER = {'itertools.takewhile', 'itertools.dropwhile', 'itertools.accumulate', 'functools.reduce'}


_IS_GENERATOR: dict = {}
_FN_LOCALS: dict = {}
_MINI_ONLY = {ast.UnaryOp, ast.BoolOp, ast.IfExp, ast.Compare}
_UNPARSED: dict = {}


def _unparse(node):
    """ast.unparse, memoised per node (the trees live as long as the run)."""
    t = _UNPARSED.get(id(node))
    if t is None:
        t = _UNPARSED[id(node)] = (ast.unparse(node), node)
    return t[0]


class _LateRaise:
    """Iterator over the items an eagerly run generator produced before it raised; the exception follows the last item."""
    def __init__(self, items, exc):
        self.items, self.exc, self.i = items, exc, 0

    def __iter__(self):
        return self

    def __next__(self):
        if self.i < len(self.items):
            self.i += 1
            return self.items[self.i - 1]
        raise self.exc


class Raised(Exception):
    """The interpreted code raised an exception."""
    def __init__(self, exc_name, args=()):
        super().__init__(exc_name)
        self.exc_name = exc_name
        self.args_ = args


BUILTIN_EXC = {'KeyError', 'IndexError', 'ValueError', 'TypeError', 'AttributeError', 'StopIteration', 'Exception',
               'NotImplementedError', 'RuntimeError', 'FutureWarning', 'DeprecationWarning', 'UserWarning', 'Warning', 'OverflowError',
               'ZeroDivisionError', 'LookupError', 'ArithmeticError', 'UnicodeDecodeError', 'UnicodeError', 'RecursionError'}


class Interp(MiniEval):
    MAX_STEPS = 200000
    MAX_DEPTH = 12

    def __init__(self, ctx, modname, cls=None, env=None, stubs=None, depth=0, shared=None):
        super().__init__(env or {}, consts=None, calls={})
        self.ctx = ctx
        self.src = ctx.src
        self.inv = ctx.consts
        self.mod = self.src.mods[modname]
        self.cls = cls
        self.stubs = stubs or {}
        self.depth = depth
        self.shared = shared if shared is not None else {'steps': 0}
        self.loop_cap = self.shared.get('loop_cap', 200)

    # ---- names / attributes --------------------------------------------------------------------------
    def lookup_module_name(self, mod, name):
        mg = self.shared.get('module_globals')
        if mg and (mod.name, name) in mg:
            return mg[(mod.name, name)]
        if name in mod.functions and '.' not in name:
            return PkgFunc(mod, mod.functions[name])
        if name in mod.classes and '.' not in name:
            return PkgClass(f'{mod.name}.{name}')
        a = mod.aliases.get(name)
        if a is not None:
            if a[0] == 'module':
                return ModRef(a[1] if not a[2] else a[1])
            if a[0] == 'symbol' and a[-1] is True and a[1] in self.src.mods:
                return self.lookup_module_name(self.src.mods[a[1]], a[2])
            if a[0] == 'symbol':
                ext = f'{a[1]}.{a[2]}'
                if ext in EXTERNAL_CONSTANTS:
                    return EXTERNAL_CONSTANTS[ext]
                return Sym(ext)
        try:
            v = self.inv.folder.lookup(mod.name, name)

            def norm(x):
                # package classes inside folded constants (an alias, a table of classes) become class values
                if type(x).__name__ == 'ClassRef' and hasattr(x, 'qual'):
                    return PkgClass(x.qual)
                if isinstance(x, tuple):
                    return tuple(norm(y) for y in x)
                if isinstance(x, list):
                    return [norm(y) for y in x]
                if isinstance(x, dict):
                    return {norm(k): norm(y) for k, y in x.items()}
                return x
            if isinstance(v, (dict, list, set)):
                # a mutable module-level container is state: one object per interpreted "process" (it may be written to)
                ck = ('modvalue', mod.name, name)
                if ck not in self.shared:
                    self.shared[ck] = norm(v) if not isinstance(v, set) else set(v)
                    if self.shared[ck] is v:
                        self.shared[ck] = type(v)(v)
                    node_ = self.inv.folder.env_nodes[mod.name].get(name)
                    if node_ is not None:
                        self._complete_module_value(mod, name, node_, Interp(self.ctx, mod.name, None, {}, self.stubs, self.depth + 1, self.shared))
                return self.shared[ck]
            return norm(v)
        except Exception:  # noqa: BLE001
            pass
        node = self.inv.folder.env_nodes[mod.name].get(name)
        is_selconst = False
        if node is not None and mod.name == 'css_parser' and not self.shared.get('no_const_shortcut') \
                and any(isinstance(c, ast.Call) for c in ast.walk(node)):
            from .props.sem import selector_constants
            is_selconst = name in selector_constants(self.ctx)
        if is_selconst:
            # a selector list compiled at import time: an opaque constant identified by its name
            key = ('const', mod.name, name)
            if key not in self.shared:
                self.shared[key] = Obj(_cls='css_types.SelectorList', _name=name, __const__=name, selectors=(), is_not=False,
                                       is_html=False, __iter__=[], __len__=0)
            return self.shared[key]
        if node is not None:
            # a module-level value is computed once (identity matters: sentinels, tables of closures)
            ck = ('modvalue', mod.name, name)
            if ck not in self.shared:
                sub = Interp(self.ctx, mod.name, None, {}, self.stubs, self.depth + 1, self.shared)
                self.shared[ck] = sub.ev(node)
                self._complete_module_value(mod, name, node, sub)
            return self.shared[ck]
        raise KeyError(name)

    def _complete_module_value(self, mod, name, node, sub):
        """Run the module-level statements after the definition of `name` that complete the value in place (TABLE[k] = v,
        TABLE.update(...), also inside a module-level loop)."""
        after = False
        for st in mod.tree.body:
            if not after:
                after = any(x is node for x in ast.walk(st))
                continue

            def mutates(x):
                root = x
                while isinstance(root, (ast.Subscript, ast.Attribute)):
                    root = root.value
                return root is not x and isinstance(root, ast.Name) and root.id == name
            hit = False
            for x in ast.walk(st) if not isinstance(st, (ast.FunctionDef, ast.ClassDef)) else []:
                if isinstance(x, (ast.Assign, ast.AugAssign, ast.Delete)):
                    ts = x.targets if isinstance(x, (ast.Assign, ast.Delete)) else [x.target]
                    hit = hit or any(mutates(t) for t in ts)
                elif isinstance(x, ast.Expr) and isinstance(x.value, ast.Call) and isinstance(x.value.func, ast.Attribute) \
                        and isinstance(x.value.func.value, ast.Name) and x.value.func.value.id == name \
                        and x.value.func.attr in ('update', 'append', 'extend', 'setdefault', 'pop', 'insert', 'remove', 'add', 'clear'):
                    hit = True
            if hit:
                sub.stmt(st)

    def ev(self, e):
        t = type(e)
        if t is ast.Constant:
            return e.value
        sh = self.shared
        sh['steps'] += 1
        if sh['steps'] > sh.get('max_steps', self.MAX_STEPS):
            raise Unsupported('step budget exceeded')
        if t in _MINI_ONLY:
            return miniev.MiniEval.ev(self, e)       # node kinds this class adds nothing to
        if t is ast.Name:
            if e.id in self.env:
                return self.env[e.id]
            if e.id in getattr(self, 'fn_locals', ()) and e.id not in getattr(self, 'globals_', ()) and e.id not in getattr(self, 'nonlocals', ()):
                raise Raised('UnboundLocalError')          # a local of this function that no path has assigned yet
            if e.id in self.stubs:
                return self.stubs[e.id]
            if getattr(self, 'class_scope', False) and self.cls:
                # an expression of a class body sees the names the class body has bound so far (functions, earlier attributes)
                if f'{self.cls}.{e.id}' in self.mod.functions:
                    return PkgFunc(self.mod, self.mod.functions[f'{self.cls}.{e.id}'], self.cls, bound=None)
                cnode_ = self.mod.classes.get(self.cls)
                for st_ in (cnode_.body if cnode_ is not None else []):
                    tgt_ = st_.targets[0] if isinstance(st_, ast.Assign) and len(st_.targets) == 1 else (st_.target if isinstance(st_, ast.AnnAssign) else None)
                    if isinstance(tgt_, ast.Name) and tgt_.id == e.id and getattr(st_, 'value', None) is not None:
                        ck_ = ('classattr', f'{self.mod.name}.{self.cls}', e.id)
                        if ck_ not in self.shared:
                            self.shared[ck_] = self.ev(st_.value)
                        return self.shared[ck_]
            try:
                return self.lookup_module_name(self.mod, e.id)
            except KeyError:
                pass
            if e.id in miniev.SAFE_BUILTINS:
                return miniev.SAFE_BUILTINS[e.id]
            if e.id in BUILTIN_EXC or e.id in ('str', 'bytes', 'int', 'bool', 'list', 'tuple', 'dict', 'float', 'set', 'object',
                                                'frozenset', 'type'):
                return getattr(__import__('builtins'), e.id)
            if e.id in ('getattr', 'hasattr', 'isinstance', 'callable', 'print', 'setattr', 'any', 'all'):
                # a builtin used as a value (map(getattr, ...), partial(getattr, x)): wrap the evaluator's own version
                name = e.id

                def as_value(*a, _n=name, **k):
                    call = ast.Call(func=ast.Name(id=_n, ctx=ast.Load()), args=[ast.Constant(value=None)] * len(a), keywords=[])
                    return self._builtin(_n, list(a), dict(k))
                return as_value
            raise Unsupported(f'unbound name {e.id}')
        if isinstance(e, ast.Attribute):
            text = _unparse(e)
            if text in self.stubs:
                return self.stubs[text]
            base = self.ev(e.value)
            return self.getattr(base, e.attr, text)
        if isinstance(e, ast.Call):
            return self.call_expr(e)
        if isinstance(e, ast.JoinedStr):
            out = []
            for v in e.values:
                if isinstance(v, ast.Constant):
                    out.append(str(v.value))
                else:
                    try:
                        val = self.ev(v.value)
                        if isinstance(val, (Obj, Sym)):
                            out.append(repr(val))
                            continue
                        if v.conversion == ord('r'):
                            val = repr(val)
                        elif v.conversion == ord('s'):
                            val = str(val)
                        elif v.conversion == ord('a'):
                            val = ascii(val)
                        spec = self.ev(v.format_spec) if v.format_spec is not None else ''
                        out.append(format(val, spec))
                    except Unsupported:
                        out.append('?')
            return ''.join(out)
        if isinstance(e, ast.Lambda):
            return Closure(e, self)
        if isinstance(e, ast.GeneratorExp):
            return iter(self.comp(e))           # evaluated eagerly, consumed lazily (next(), any(), join() ...)
        if isinstance(e, ast.NamedExpr):
            v = self.ev(e.value)
            self.assign(e.target, v)
            return v
        if isinstance(e, (ast.Tuple, ast.List)) and any(isinstance(x, ast.Starred) for x in e.elts):
            out = []
            for x in e.elts:
                if isinstance(x, ast.Starred):
                    out.extend(list(self.ev(x.value)))
                else:
                    out.append(self.ev(x))
            return tuple(out) if isinstance(e, ast.Tuple) else out
        if isinstance(e, ast.Dict) and any(k is None for k in e.keys):
            out = {}
            for k, v in zip(e.keys, e.values):
                if k is None:
                    m = self.ev(v)
                    if isinstance(m, Obj):
                        # ** of a package mapping: through its keys() and __getitem__
                        ks = self.getattr(m, 'keys')()
                        gi = self.dunder(m, '__getitem__')
                        if gi is None:
                            raise Unsupported('** of an object without __getitem__')
                        for kk in list(ks):
                            out[kk] = self.apply(gi, [kk], {})
                    else:
                        out.update(m)
                else:
                    out[self.ev(k)] = self.ev(v)
            return out
        if isinstance(e, ast.Subscript) and isinstance(e.slice, ast.Slice) and isinstance(e.ctx, ast.Load):
            base = self.ev(e.value)
            if isinstance(base, (Obj, Sym)):
                raise Unsupported('slice of an abstract object')
            lo = self.ev(e.slice.lower) if e.slice.lower is not None else None
            hi = self.ev(e.slice.upper) if e.slice.upper is not None else None
            st = self.ev(e.slice.step) if e.slice.step is not None else None
            return base[lo:hi:st]
        if isinstance(e, ast.BinOp) and isinstance(e.op, (ast.Div, ast.Pow, ast.LShift, ast.RShift, ast.BitXor)):
            a, b = self.ev(e.left), self.ev(e.right)
            if isinstance(a, (Obj, Sym)) or isinstance(b, (Obj, Sym)):
                raise Unsupported('arithmetic on an abstract value')
            try:
                return {ast.Div: lambda: a / b, ast.Pow: lambda: a ** b, ast.LShift: lambda: a << b, ast.RShift: lambda: a >> b,
                        ast.BitXor: lambda: a ^ b}[type(e.op)]()
            except ZeroDivisionError:
                raise Raised('ZeroDivisionError')
        if isinstance(e, ast.BinOp):
            a, b = self.ev(e.left), self.ev(e.right)
            if isinstance(a, Sym) or isinstance(b, Sym) or ((isinstance(a, Obj) or isinstance(b, Obj)) and not isinstance(e.op, ast.Mod)):
                raise Unsupported('arithmetic on an abstract value')
            ops = {ast.Add: lambda: a + b, ast.Sub: lambda: a - b, ast.Mult: lambda: a * b, ast.Mod: lambda: a % b,
                   ast.FloorDiv: lambda: a // b, ast.BitAnd: lambda: a & b, ast.BitOr: lambda: a | b, ast.MatMult: None}
            f = ops.get(type(e.op))
            if f is None:
                raise Unsupported(f'operator {type(e.op).__name__}')
            try:
                return f()
            except ZeroDivisionError:
                raise Raised('ZeroDivisionError')
            except TypeError:
                # the operands are concrete values here: this is what the analysed code would raise
                raise Raised('TypeError')
        if isinstance(e, ast.Starred):
            raise Unsupported('starred expression')
        if isinstance(e, ast.Subscript) and isinstance(e.ctx, ast.Load):
            base = self.ev(e.value)
            if isinstance(base, Obj) and not base.has('__iter__'):
                f = self.dunder(base, '__getitem__')
                if f is not None and not isinstance(e.slice, ast.Slice):
                    return self.apply(f, [self.ev(e.slice)], {})
            if isinstance(base, (dict, list, tuple, str)) and not isinstance(e.slice, ast.Slice):
                k = self.ev(e.slice)
                try:
                    return base[k]
                except (KeyError, IndexError) as x:
                    raise Raised(type(x).__name__)
                except TypeError:
                    raise Raised('TypeError')
        return super().ev(e)

    def getattr(self, base, attr, text=''):
        if base is None:
            raise Raised('AttributeError')       # None has no such attribute: what the analysed code would raise
        if isinstance(base, ModRef):
            key = f'{base.name}.{attr}'
            if key in self.stubs:
                return self.stubs[key]
            if key in EXTERNAL and EXTERNAL[key] is not None:
                return EXTERNAL[key]
            if key in EXTERNAL_CONSTANTS:
                return EXTERNAL_CONSTANTS[key]
            if base.name in self.src.mods:
                try:
                    return self.lookup_module_name(self.src.mods[base.name], attr)
                except KeyError:
                    raise Unsupported(f'{key} not found')
            if base.name == 're':
                import re as _re
                v = getattr(_re, attr, None)
                if isinstance(v, (int, _re.RegexFlag)):
                    return int(v)
                if attr == 'escape':
                    # re.escape as a value (kept in a table of quoting functions): pure on strings
                    def escape_(x):
                        if not isinstance(x, str):
                            raise Unsupported('re.escape of an abstract value')
                        return _re.escape(x)
                    return escape_
                if attr in ('match', 'search', 'fullmatch', 'finditer', 'findall', 'split', 'sub') and (self.shared.get('regex_engine') or f're.Pattern.{attr}' in self.stubs):
                    # re.match(pattern, text, flags) ...: compiled on the spot, applied by the analyser's own matcher
                    def direct_(pattern, *a, _attr=attr, **kw):
                        if not isinstance(pattern, str):
                            raise Unsupported(f're.{_attr} of an abstract pattern')
                        flags = kw.pop('flags', 0)
                        nfix = {'match': 1, 'search': 1, 'fullmatch': 1, 'finditer': 1, 'findall': 1, 'split': 2, 'sub': 3}[_attr]
                        if _attr == 'split' and len(a) == 2 and 'maxsplit' not in kw:
                            nfix = 2
                        if len(a) > nfix:
                            flags = a[nfix]
                            a = a[:nfix]
                        pobj = Obj(_name=f're:{pattern[:20]}', pattern=pattern, flags=int(flags), __isa__=('re.Pattern',))
                        return self.getattr(pobj, _attr)(*a, **kw)
                    return direct_
                if attr == 'compile':
                    def compile_(pattern, flags=0):
                        if not isinstance(pattern, str):
                            raise Unsupported('re.compile of an abstract value')
                        return Obj(_name=f're:{pattern[:20]}', pattern=pattern, flags=flags, __isa__=('re.Pattern',))
                    return compile_
            return Sym(key)
        if isinstance(base, Obj) and base.has('__super__'):
            selfobj = base.get('__self__')
            cq = f'{self.mod.name}.{self.cls}' if self.cls else None
            if cq:
                for c in self.src.mro(cq)[1:]:
                    mn, _, cn = c.partition('.')
                    if f'{cn}.{attr}' in self.src.mods[mn].functions:
                        return PkgFunc(self.src.mods[mn], self.src.mods[mn].functions[f'{cn}.{attr}'], cn, bound=selfobj)
            if attr == '__setattr__' and isinstance(selfobj, Obj):
                return lambda k_, v_, _o=selfobj: _o.set(k_, v_)
            raise Unsupported(f'super().{attr}')
        if isinstance(base, Obj):
            if base.has(attr):
                return base.get(attr)
            if base.has('__isa__') and 're.Pattern' in base.get('__isa__') and f're.Pattern.{attr}' in self.stubs:
                # applying a compiled regex is never interpreted: the caller supplies the abstract matcher
                hook = self.stubs[f're.Pattern.{attr}']
                return lambda *a, **kw: hook(base, *a, **kw)
            if base.has('__isa__') and 're.Pattern' in base.get('__isa__') and self.shared.get('regex_engine') \
                    and attr in ('match', 'search', 'fullmatch', 'finditer', 'sub', 'findall', 'split'):
                # ... or asks for the analyser's own matcher over the regex source (sa.rematch), on short abstract strings
                from . import rematch
                key = ('rematch', base.get('pattern'), int(base.get('flags') or 0))
                if key not in self.shared:
                    try:
                        self.shared[key] = rematch.Pattern(base.get('pattern'), int(base.get('flags') or 0))
                    except rematch.Unsupported as e:
                        raise Unsupported(f'regex outside the matcher: {e}')
                eng = self.shared[key]

                def apply_(*a, _m=getattr(eng, attr), _attr=attr, **kw):
                    if _attr == 'sub' and a and isinstance(a[0], (PkgFunc, Closure, Partial)):
                        a = (self.as_callable(a[0]),) + tuple(a[1:])      # the replacement callback is interpreted, too
                    try:
                        return _m(*a, **kw)
                    except rematch.Unsupported as e:
                        raise Unsupported(f'regex outside the matcher: {e}')
                return apply_
            cq = object.__getattribute__(base, '_cls')
            if cq and attr == '__class__':
                return PkgClass(cq)
            if cq:
                # methods and class-level attributes, class by class along the MRO (a function kept in a class attribute is a
                # method: it is bound to the instance it is read from)
                for c in self.src.mro(cq):
                    mn, _, cn = c.partition('.')
                    if mn not in self.src.mods or cn not in self.src.mods[mn].classes:
                        continue
                    if f'{cn}.{attr}' in self.src.mods[mn].functions:
                        return PkgFunc(self.src.mods[mn], self.src.mods[mn].functions[f'{cn}.{attr}'], cn, bound=base)
                    cnode = self.src.mods[mn].classes[cn]
                    for st in cnode.body:
                        val = None
                        if isinstance(st, ast.Assign) and any(isinstance(t, ast.Name) and t.id == attr for t in st.targets):
                            val = st.value
                        elif isinstance(st, ast.AnnAssign) and isinstance(st.target, ast.Name) and st.target.id == attr \
                                and st.value is not None:
                            val = st.value
                        if val is not None:
                            ck = ('classattr', c, attr)
                            if ck not in self.shared:
                                sub_ = Interp(self.ctx, mn, cn, {}, self.stubs, self.depth + 1, self.shared)
                                sub_.class_scope = True
                                self.shared[ck] = sub_.ev(val)
                            v = self.shared[ck]
                            if isinstance(v, (Closure, PkgFunc)) and not (isinstance(v, PkgFunc) and v.bound is not None):
                                return Partial(v, [base], {})
                            return v
            if cq and attr in ('get', 'items', 'keys', 'values', '__contains__'):
                # mixin methods of collections.abc.Mapping, for a package class that defines __getitem__ and __iter__
                gi, it_ = self.dunder(base, '__getitem__'), self.dunder(base, '__iter__')
                cnode_ = None
                for c in self.src.mro(cq):
                    mn, _, cn = c.partition('.')
                    if mn in self.src.mods and cn in self.src.mods[mn].classes:
                        cnode_ = cnode_ or self.src.mods[mn].classes[cn]
                        if any(ast.unparse(b).split('.')[-1].split('[')[0] in ('Mapping', 'MutableMapping') for b in self.src.mods[mn].classes[cn].bases):
                            break
                else:
                    gi = None
                if gi is not None and it_ is not None:
                    def lookup(k, default=None, _gi=gi):
                        try:
                            return self.apply(_gi, [k], {})
                        except Raised as x:
                            if x.exc_name == 'KeyError':
                                return default
                            raise
                    keys = lambda: list(self.apply(it_, [], {}))       # noqa: E731
                    if attr == 'get':
                        return lookup
                    if attr == 'keys':
                        return keys
                    if attr == 'values':
                        return lambda: [self.apply(gi, [k], {}) for k in keys()]
                    if attr == 'items':
                        return lambda: [(k, self.apply(gi, [k], {})) for k in keys()]
                    if attr == '__contains__':
                        return lambda k: k in keys()
            if cq and not object.__getattribute__(base, '_constructed') and not attr.startswith('__'):
                # a stand-in for a package object that lacks a field the class initialises to a literal in its constructor (a
                # memo table added by a change): take the initial value from the constructor
                init_q = self.src.find_method(cq, '__init__')
                if init_q:
                    m_, fn_ = self.src.func(init_q)
                    selfname = fn_.args.args[0].arg if fn_.args.args else 'self'
                    for st in ast.walk(fn_):
                        tgt = None
                        if isinstance(st, ast.Assign) and len(st.targets) == 1:
                            tgt, val = st.targets[0], st.value
                        elif isinstance(st, ast.AnnAssign) and st.value is not None:
                            tgt, val = st.target, st.value
                        if isinstance(tgt, ast.Attribute) and isinstance(tgt.value, ast.Name) and tgt.value.id == selfname and tgt.attr == attr:
                            try:
                                lit = ast.literal_eval(val)
                            except (ValueError, SyntaxError):
                                break
                            base.set(attr, lit)
                            return lit
            if cq and object.__getattribute__(base, '_constructed') and not attr.startswith('__'):
                # an object the interpreted program built itself: what its class does not define and its constructor did not
                # set does not exist
                raise Raised('AttributeError')
            raise Unsupported(f'attribute {attr} of {base!r}')
        if isinstance(base, PkgClass):
            for c in self.src.mro(base.qual):
                mn, _, cn = c.partition('.')
                if mn not in self.src.mods or cn not in self.src.mods[mn].classes:
                    continue
                if f'{cn}.{attr}' in self.src.mods[mn].functions:
                    fn = self.src.mods[mn].functions[f'{cn}.{attr}']
                    decos = [_unparse(d) for d in fn.decorator_list]
                    # a classmethod read from the class is bound to the class it is read from
                    return PkgFunc(self.src.mods[mn], fn, cn, bound=(base if 'classmethod' in decos else None))
                for st in self.src.mods[mn].classes[cn].body:
                    val = None
                    if isinstance(st, ast.Assign) and any(isinstance(t, ast.Name) and t.id == attr for t in st.targets):
                        val = st.value
                    elif isinstance(st, ast.AnnAssign) and isinstance(st.target, ast.Name) and st.target.id == attr and st.value is not None:
                        val = st.value
                    if val is not None:
                        ck = ('classattr', c, attr)
                        if ck not in self.shared:
                            sub_ = Interp(self.ctx, mn, cn, {}, self.stubs, self.depth + 1, self.shared)
                            sub_.class_scope = True
                            self.shared[ck] = sub_.ev(val)
                        return self.shared[ck]
            if attr == '__name__':
                return base.qual.split('.')[-1]
            raise Unsupported(f'{base.qual}.{attr}')
        if isinstance(base, Sym):
            return Sym(f'{base.name}.{attr}')
        if hasattr(type(base), '_pkg_qual'):
            # an instance of a NamedTuple class of the package: fields, tuple API, methods of the class
            if attr in getattr(base, '_fields', ()) or attr in ('_fields', '_asdict', '_replace', 'count', 'index'):
                return getattr(base, attr)
            mq = self.src.find_method(type(base)._pkg_qual, attr)
            if mq:
                m, fn = self.src.func(mq)
                return PkgFunc(m, fn, mq.split('.')[1], bound=base)
            raise Raised('AttributeError')
        if type(base).__module__ == 'datetime' and not attr.startswith('_'):
            return getattr(base, attr)          # datetime / date values are plain data
        if isinstance(base, type) and base in (dict, str, list, tuple, int, set, frozenset, bytes, float) and not attr.startswith('_'):
            return getattr(base, attr)          # dict.fromkeys, str.join, int.from_bytes ...
        if isinstance(base, (str, bytes, dict, list, tuple, set, frozenset, int, float)) and not attr.startswith('__') \
                and hasattr(base, attr) and not getattr(type(base), '_is_abstract_node', False):
            return getattr(base, attr)
        if type(base).__name__ == 'Match' and type(base).__module__.endswith('rematch') and attr in (
                'group', 'groups', 'groupdict', 'start', 'end', 'span', 'string', 'lastindex', 'lastgroup', 'pos', 'endpos'):
            return getattr(base, attr)
        if getattr(type(base), '_is_abstract_node', False) and attr in ('parent', 'next_sibling', 'previous_sibling', 'next_element',
                                                                       'previous_element', 'name', 'kind'):
            return getattr(base, attr)
        if isinstance(base, (str, dict, list, tuple, set, frozenset)) and attr in miniev.SAFE_METHODS:
            return getattr(base, attr)
        raise Unsupported(f'attribute {text or attr}')

    # ---- calls ------------------------------------------------------------------------------------------
    def call_expr(self, e: ast.Call):
        text = _unparse(e.func)
        if text in ('cast', 'typing.cast') and len(e.args) == 2:
            return self.ev(e.args[1])       # the type argument is never evaluated
        args = []
        for a in e.args:
            if isinstance(a, ast.Starred):
                args.extend(list(self.ev(a.value)))
            else:
                args.append(self.ev(a))
        kwargs = {}
        for k in e.keywords:
            if k.arg is None:
                kwargs.update(self.ev(k.value))
            else:
                kwargs[k.arg] = self.ev(k.value)
        if text in self.stubs and callable(self.stubs[text]):
            return self.stubs[text](*args, **kwargs)
        if text == 're.compile' and args and isinstance(args[0], str):
            # a compiled regex is represented by its source and flags; applying it must be stubbed by the caller
            return Obj(_name=f're:{args[0][:20]}', pattern=args[0], flags=args[1] if len(args) > 1 else kwargs.get('flags', 0),
                       __isa__=('re.Pattern',))
        if text == 're.escape' and len(args) == 1 and isinstance(args[0], str):
            import re as _re
            return _re.escape(args[0])
        if text in ('css_unescape', 'cp.css_unescape') and 'css_parser.css_unescape' not in self.stubs and args \
                and isinstance(args[0], str) and '\\' not in args[0]:
            return args[0]          # text without a backslash is unchanged by the decoder
        if text in ('cast', 'typing.cast') and len(args) == 2:
            return args[1]
        if text == 'print':
            return None
        if text in ('len', 'bool', 'iter', 'hash', 'repr', 'str') and len(args) == 1 and isinstance(args[0], Obj) and text not in self.env:
            # the protocol methods of a package class, when the object does not carry a canned answer
            o = args[0]
            cq = object.__getattribute__(o, '_cls')
            dunder = {'len': '__len__', 'bool': '__bool__', 'iter': '__iter__', 'hash': '__hash__', 'repr': '__repr__', 'str': '__str__'}[text]
            if cq and not o.has(dunder):
                mq = self.src.find_method(cq, dunder)
                if mq is None and text == 'bool':
                    mq = self.src.find_method(cq, '__len__')
                if mq:
                    m_, fn_ = self.src.func(mq)
                    r = self.apply(PkgFunc(m_, fn_, mq.split('.')[1], bound=o), [], {})
                    return bool(r) if text == 'bool' else r
            if text == 'hash':
                return hash(o)
        if text == 'next' and args and not isinstance(args[0], (Obj, Sym)) and text not in self.stubs:
            try:
                return next(*args)
            except StopIteration:
                raise Raised('StopIteration')
            except TypeError:
                raise Raised('TypeError')
        if text == 'isinstance' and len(args) == 2:
            return self.isinstance(args[0], args[1])
        if text == 'super':
            return Obj(_name='super', __super__=True, __self__=self.env.get('self', self.env.get('cls')))
        if text in ('any', 'all') and len(args) == 1:
            vals = [self.truth(x) for x in args[0]]
            return any(vals) if text == 'any' else all(vals)
        if text in ('functools.partial', 'partial') and args:
            return Partial(args[0], args[1:], kwargs)
        if text == 'hasattr' and len(args) == 2:
            if isinstance(args[0], Obj):
                if args[0].has(args[1]):
                    return True
                cq = object.__getattribute__(args[0], '_cls')
                return bool(cq and self.src.find_method(cq, args[1]))
            if not isinstance(args[0], Sym):
                return hasattr(args[0], args[1]) and (not getattr(type(args[0]), '_is_abstract_node', False) or args[1] in (
                    'parent', 'next_sibling', 'previous_sibling', 'next_element', 'previous_element', 'name', 'strip'))
        if text == 'setattr' and len(args) == 3 and isinstance(args[0], Obj):
            args[0].set(args[1], args[2])
            return None
        if text == 'getattr' and len(args) >= 2 and isinstance(args[0], Obj) and not args[0].has(args[1]):
            try:
                return self.getattr(args[0], args[1])
            except (Unsupported, Raised):
                if len(args) == 3:
                    return args[2]
                raise Raised('AttributeError')
        if text == 'getattr' and len(args) >= 2 and not isinstance(args[0], (Obj, Sym, type(None), str)):
            try:
                return self.getattr(args[0], args[1])
            except (Unsupported, Raised):
                if len(args) == 3:
                    return args[2]
                raise Raised('AttributeError')
        if text == 'type' and len(args) == 1 and 'type' not in self.stubs:
            if isinstance(args[0], Obj):
                cq = object.__getattribute__(args[0], '_cls')
                if cq:
                    return PkgClass(cq)
                if args[0].has('__isa__') and args[0].get('__isa__'):
                    return Sym(args[0].get('__isa__')[0])       # an external class, known by name only
                raise Unsupported('type() of an abstract object')
            if not isinstance(args[0], Sym):
                return type(args[0])
        if text == 'callable' and len(args) == 1:
            return isinstance(args[0], (PkgFunc, PkgClass, Closure, Partial)) or callable(args[0])
        if text == 'getattr' and len(args) >= 2 and isinstance(args[0], Obj):
            if args[0].has(args[1]):
                return args[0].get(args[1])
            if len(args) == 3:
                return args[2]
            raise Raised('AttributeError')
        if text == 'getattr' and len(args) == 3 and isinstance(args[0], (str, type(None))):
            return getattr(args[0], args[1], args[2])
        args = [self.as_callable(a) if isinstance(a, (Closure, PkgFunc, Partial)) else a for a in args] \
            if self._real_callee(e, text) else args
        if self._real_callee(e, text):
            kwargs = {k: (self.as_callable(v) if isinstance(v, (Closure, PkgFunc, Partial)) else v) for k, v in kwargs.items()}
        callee = None
        if isinstance(e.func, ast.Attribute):
            if isinstance(e.func.value, ast.Call) and ast.unparse(e.func.value) == 'super()':
                # super().method(...)
                selfobj = self.env.get('self') or self.env.get('cls')
                cq = f'{self.mod.name}.{self.cls}' if self.cls else None
                if cq:
                    for c in self.src.mro(cq)[1:]:
                        mn, _, cn = c.partition('.')
                        if f'{cn}.{e.func.attr}' in self.src.mods[mn].functions:
                            callee = PkgFunc(self.src.mods[mn], self.src.mods[mn].functions[f'{cn}.{e.func.attr}'], cn, bound=selfobj)
                            break
                if callee is None and e.func.attr == '__setattr__' and isinstance(selfobj, Obj):
                    callee = lambda k_, v_, _o=selfobj: _o.set(k_, v_)      # noqa: E731  (object.__setattr__)
                if callee is None and e.func.attr == '__init__' and isinstance(selfobj, Obj):
                    # the initialiser of a base class outside the package (object, Exception): records its arguments
                    callee = lambda *a_, _o=selfobj, **k_: _o.set('__base_init_args__', tuple(a_))      # noqa: E731
                if callee is None:
                    raise Unsupported(f'super().{e.func.attr}')
            else:
                base = self.ev(e.func.value)
                if isinstance(base, (str, dict, list, tuple, set, frozenset)) and e.func.attr in miniev.SAFE_METHODS:
                    concrete = not any(isinstance(a_, (Obj, Sym)) for a_ in list(args) + list(kwargs.values()))
                    if not hasattr(base, e.func.attr):
                        raise Raised('AttributeError')       # e.g. .lower() on a list-valued attribute
                    if e.func.attr in ('extend', 'update', 'union', 'intersection', 'difference', 'issubset', 'issuperset',
                                       'isdisjoint', 'join', 'symmetric_difference', 'intersection_update',
                                       'difference_update') and not isinstance(base, dict):
                        # an iterable package object handed to a container method: drawn through its own __iter__
                        args = [self.iterate(a_) if isinstance(a_, Obj) and self.dunder(a_, '__iter__') is not None else a_
                                for a_ in args]
                    try:
                        return getattr(base, e.func.attr)(*args, **kwargs)
                    except (ValueError, KeyError, IndexError) as x:
                        if concrete:
                            raise Raised(type(x).__name__)      # '{'.format(), [].index(x), {}.pop(k), 'a'.split('') on concrete operands
                        raise
                callee = self.getattr(base, e.func.attr, text)
        else:
            callee = self.ev(e.func)
        return self.apply(callee, args, kwargs, text)

    def _builtin(self, name, args, kwargs):
        """The evaluator's version of a builtin, for use as a first-class value."""
        if name == 'getattr':
            if len(args) >= 2:
                try:
                    if isinstance(args[0], Obj) and args[0].has(args[1]):
                        return args[0].get(args[1])
                    return self.getattr(args[0], args[1])
                except (Unsupported, Raised):
                    if len(args) == 3:
                        return args[2]
                    raise Raised('AttributeError')
        if name == 'hasattr' and len(args) == 2:
            try:
                self._builtin('getattr', args, {})
                return True
            except Raised:
                return False
        if name == 'isinstance' and len(args) == 2:
            return self.isinstance(args[0], args[1])
        if name == 'callable' and len(args) == 1:
            return isinstance(args[0], (PkgFunc, PkgClass, Closure, Partial)) or callable(args[0])
        if name == 'setattr' and len(args) == 3 and isinstance(args[0], Obj):
            args[0].set(args[1], args[2])
            return None
        if name in ('any', 'all') and len(args) == 1:
            vals = [self.truth(x) for x in args[0]]
            return any(vals) if name == 'any' else all(vals)
        if name == 'print':
            return None
        raise Unsupported(f'builtin {name} as a value')

    def _real_callee(self, e, text):
        """Will this call be performed by a real Python callable (builtin / container method / stdlib helper)?"""
        if text in self.stubs:
            return False
        if isinstance(e.func, ast.Name):
            return e.func.id in miniev.SAFE_BUILTINS and e.func.id not in self.env
        if isinstance(e.func, ast.Attribute):
            return e.func.attr in ('sort', 'get', 'setdefault', 'from_iterable', 'reduce', 'takewhile', 'dropwhile', 'accumulate', 'join')
        return False

    def as_callable(self, v):
        return lambda *a, **k: self.apply(v, list(a), dict(k))

    def isinstance(self, v, c):
        cs = c if isinstance(c, tuple) else (c,)
        for k in cs:
            if isinstance(k, PkgClass):
                if isinstance(v, Obj):
                    cq = object.__getattribute__(v, '_cls')
                    if cq and k.qual in self.src.mro(cq):
                        return True
            elif isinstance(k, type):
                if not isinstance(v, (Obj, Sym)) and isinstance(v, k):
                    return True
            elif isinstance(k, Sym):
                tag = object.__getattribute__(v, '_fields').get('__isa__', ()) if isinstance(v, Obj) else getattr(v, '__isa__', ())
                if k.name in tag:
                    return True
                # abstract base classes of the standard library, for the concrete values the tables use
                short = k.name.rsplit('.', 1)[-1]
                abc = {'Sequence': (list, tuple, str, bytes), 'MutableSequence': (list,), 'Mapping': (dict,), 'MutableMapping': (dict,),
                       'Iterable': (list, tuple, str, bytes, dict, set, frozenset), 'Hashable': (str, bytes, int, float, tuple, frozenset, type(None))}
                if short in abc and not isinstance(v, (Obj, Sym)) and isinstance(v, abc[short]):
                    return True
            else:
                raise Unsupported('isinstance against an unknown class')
        return False

    def apply(self, callee, args, kwargs, text=''):
        if self.depth > self.shared.get('max_depth', self.MAX_DEPTH):
            raise Unsupported('call depth exceeded')
        if isinstance(callee, PkgFunc):
            key = f'{callee.mod.name}.{callee.cls + "." if callee.cls else ""}{callee.fn.name}'
            if key in self.stubs and callable(self.stubs[key]):
                return self.stubs[key](*args, **kwargs)
            return self.run_function(callee.mod, callee.fn, callee.cls, args, kwargs, callee.bound)
        if isinstance(callee, PkgClass):
            if callee.qual in self.stubs:
                return self.stubs[callee.qual](*args, **kwargs)
            mn_, _, cn_ = callee.qual.partition('.')
            cnode = self.src.mods[mn_].classes.get(cn_)
            if cnode is not None and any(ast.unparse(b).split('.')[-1] == 'NamedTuple' for b in cnode.bases):
                return self.namedtuple_instance(callee.qual, cnode, args, kwargs)
            if cnode is not None and any(ast.unparse(b).split('.')[-1] in ('Exception', 'ValueError', 'TypeError', 'KeyError')
                                         for b in cnode.bases):
                return Obj(_name=cn_, __exc__=cn_, args=tuple(args))
            obj = Obj(_cls=callee.qual, _name=callee.qual.split('.')[-1])
            init = self.src.find_method(callee.qual, '__init__')
            if 'css_types.Immutable' in self.src.mro(callee.qual) and init and not self.shared.get('real_immutable'):
                # value classes of the IR: record the constructor arguments as fields instead of running the hashing code
                m, fn = self.src.func(init)
                tmp = Interp(self.ctx, m.name, init.split('.')[1], {}, self.stubs, self.depth + 1, self.shared)
                tmp.bind_params(fn.args, [obj] + list(args), dict(kwargs))
                for k, v in tmp.env.items():
                    if k != fn.args.args[0].arg:
                        obj.set(k, tuple(v) if isinstance(v, list) else v)
                if callee.qual.endswith('SelectorList'):
                    sels = obj.get('selectors') if obj.has('selectors') else ()
                    obj.set('selectors', tuple(sels) if sels is not None else ())
                    obj.set('__iter__', list(obj.get('selectors')))
                    obj.set('__len__', len(obj.get('selectors')))
                return obj
            if init:
                m, fn = self.src.func(init)
                self.run_function(m, fn, init.split('.')[1], args, kwargs, obj)
            object.__setattr__(obj, '_constructed', True)     # every field comes from the interpreted constructor
            mro_ = self.src.mro(callee.qual)
            if any(c_ in ('css_types.Immutable', 'css_types.ImmutableDict') for c_ in mro_) and self.src.find_method(callee.qual, '__eq__'):
                # the value classes of the compiled structure define == and hash over their contents: model that, so that a dict
                # or set keyed by them in the interpreted program behaves as at run time
                def vkey(v_):
                    if isinstance(v_, Obj):
                        k_ = object.__getattribute__(v_, '_fields').get('__eq_key__')
                        return k_ if k_ is not None else ('id', id(v_))
                    if isinstance(v_, (tuple, list)):
                        return tuple(vkey(x_) for x_ in v_)
                    if isinstance(v_, dict):
                        return tuple(sorted((repr(a_), vkey(b_)) for a_, b_ in v_.items()))
                    try:
                        hash(v_)
                        return v_
                    except TypeError:
                        return ('repr', repr(v_))
                fields_ = object.__getattribute__(obj, '_fields')
                fields_['__eq_key__'] = (callee.qual,) + tuple((k_, vkey(v_)) for k_, v_ in sorted(fields_.items()) if k_ not in ('_hash', '__eq_key__'))
            return obj
        if isinstance(callee, Partial):
            kw = dict(callee.kwargs)
            kw.update(kwargs)
            return self.apply(callee.callee, list(callee.args) + list(args), kw, text)
        if isinstance(callee, Sym):
            if callee.name in EXTERNAL and EXTERNAL[callee.name] is not None:
                real = EXTERNAL[callee.name]
                a2 = [self.as_callable(a) if isinstance(a, (Closure, PkgFunc, Partial)) else a for a in args]
                try:
                    r = real(*a2, **kwargs)
                except (ValueError, OverflowError, ZeroDivisionError) as x:
                    if not any(isinstance(a, (Obj, Sym)) for a in list(a2) + list(kwargs.values())):
                        raise Raised(type(x).__name__)       # datetime(10000, 1, 1), ... on concrete operands
                    raise
                return r
            if callee.name in HIGHER_ORDER:
                import functools
                import itertools
                real = {'itertools.takewhile': itertools.takewhile, 'itertools.dropwhile': itertools.dropwhile,
                        'itertools.accumulate': itertools.accumulate, 'functools.reduce': functools.reduce}[callee.name]
                a2 = [self.as_callable(a) if isinstance(a, (Closure, PkgFunc, Partial)) else a for a in args]
                r = real(*a2, **kwargs)
                return list(r) if callee.name != 'functools.reduce' else r
            if callee.name in ('functools.partial',):
                return Partial(args[0], args[1:], kwargs)
        if isinstance(callee, Closure):
            fn = callee.fn
            import collections
            sub = Interp(self.ctx, callee.owner.mod.name, callee.owner.cls, {}, self.stubs, self.depth + 1, self.shared)
            sub.env = collections.ChainMap({}, callee.owner.env)
            sub.outer_env = callee.owner.env
            sub.yielded = None
            sub.bind_params(fn.args, args, kwargs)
            if not isinstance(fn, ast.Lambda) and any(isinstance(n, (ast.Yield, ast.YieldFrom)) for n in ast.walk(fn)):
                sub.yielded = []
                sub.run(fn.body)
                return iter(list(sub.yielded))
            if isinstance(fn, ast.Lambda):
                return sub.ev(fn.body)
            return sub.run(fn.body)
        if isinstance(callee, type) and callee.__name__ in BUILTIN_EXC:
            return Obj(_name=callee.__name__, __exc__=callee.__name__, args=tuple(args))
        if callee is object:
            return Obj(_name='object()')
        if isinstance(callee, type) and callee in (str, int, bool, list, tuple, dict, float, set, bytes, frozenset):
            if any(isinstance(a, (Obj, Sym)) for a in args):
                raise Unsupported(f'{callee.__name__}() of an abstract value')
            try:
                return callee(*args, **kwargs)
            except (ValueError, OverflowError) as x:
                raise Raised(type(x).__name__)       # int('x'), float('') ...: what the analysed code would raise
        if callable(callee) and not isinstance(callee, (Obj, Sym)):
            concrete = not any(isinstance(a, (Obj, Sym)) for a in list(args) + list(kwargs.values()))
            try:
                return callee(*args, **kwargs)
            except (ValueError, OverflowError, ZeroDivisionError) as x:
                if concrete and getattr(callee, '__module__', None) in ('builtins', 'datetime', 'unicodedata', 'math'):
                    raise Raised('KeyError' if isinstance(x, KeyError) else type(x).__name__)   # chr(0x110000), int('x', 16), divmod(1, 0) on concrete operands
                raise
        raise Unsupported(f'call of {text or callee!r}')

    def namedtuple_instance(self, qual, cnode, args, kwargs):
        key = ('namedtuple', qual)
        if key not in self.shared:
            import collections
            fields, defaults = [], []
            mn_ = qual.split('.')[0]
            for st in cnode.body:
                if isinstance(st, ast.AnnAssign) and isinstance(st.target, ast.Name):
                    fields.append(st.target.id)
                    if st.value is not None:
                        defaults.append(Interp(self.ctx, mn_, None, {}, self.stubs, self.depth + 1, self.shared).ev(st.value))
            base = collections.namedtuple(cnode.name, fields, defaults=defaults or None)
            self.shared[key] = type(cnode.name, (base,), {'_pkg_qual': qual, '__slots__': ()})
        try:
            return self.shared[key](*args, **kwargs)
        except TypeError:
            raise Raised('TypeError')

    def bind_params(self, a: ast.arguments, args, kwargs):
        params = [x.arg for x in a.posonlyargs + a.args]
        defaults = list(a.defaults)
        for i, p in enumerate(params):
            if i < len(args):
                self.env[p] = args[i]
            elif p in kwargs:
                self.env[p] = kwargs.pop(p)
            else:
                di = i - (len(params) - len(defaults))
                if di < 0:
                    raise Unsupported(f'missing argument {p}')
                self.env[p] = self.ev(defaults[di])
        if len(args) > len(params):
            if a.vararg:
                self.env[a.vararg.arg] = tuple(args[len(params):])
            else:
                raise Unsupported('too many positional arguments')
        elif a.vararg:
            self.env[a.vararg.arg] = ()
        for kw, d in zip(a.kwonlyargs, a.kw_defaults):
            if kw.arg in kwargs:
                self.env[kw.arg] = kwargs.pop(kw.arg)
            elif d is not None:
                self.env[kw.arg] = self.ev(d)
            else:
                raise Unsupported(f'missing keyword argument {kw.arg}')
        if a.kwarg:
            self.env[a.kwarg.arg] = dict(kwargs)
        elif kwargs:
            raise Unsupported(f'unexpected keyword arguments {sorted(kwargs)}')

    def run_function(self, mod, fn, cls, args, kwargs, bound=None):
        sub = Interp(self.ctx, mod.name, cls, {}, self.stubs, self.depth + 1, self.shared)
        decos = [_unparse(d) for d in fn.decorator_list]
        args = list(args)
        if cls and 'staticmethod' not in decos:
            first = bound if bound is not None else (PkgClass(f'{mod.name}.{cls}') if 'classmethod' in decos else None)
            if 'classmethod' in decos:
                dyn = object.__getattribute__(bound, '_cls') if isinstance(bound, Obj) else None
                first = PkgClass(dyn) if dyn else (bound if isinstance(bound, Obj) else PkgClass(f'{mod.name}.{cls}'))
            if first is None:
                if not args:
                    raise Unsupported('unbound method call')
            else:
                args = [first] + args
        sub.bind_params(fn.args, args, dict(kwargs))
        loc = _FN_LOCALS.get(id(fn))
        if loc is None:
            from .srcmodel import walk_no_nested as _wnn
            loc = set()
            for n_ in _wnn(fn):
                if isinstance(n_, ast.Name) and isinstance(n_.ctx, (ast.Store, ast.Del)):
                    loc.add(n_.id)
                elif isinstance(n_, (ast.Global, ast.Nonlocal)):
                    loc -= set(n_.names)
            for n_ in _wnn(fn):
                if isinstance(n_, (ast.Global, ast.Nonlocal)):
                    loc -= set(n_.names)
                elif isinstance(n_, (ast.ListComp, ast.SetComp, ast.DictComp, ast.GeneratorExp)):
                    for g_ in n_.generators:
                        loc -= {x.id for x in ast.walk(g_.target) if isinstance(x, ast.Name)}      # comprehension variables are not locals of fn
            loc = _FN_LOCALS[id(fn)] = frozenset(loc)
        sub.fn_locals = loc
        isgen = _IS_GENERATOR.get(id(fn))
        if isgen is None:
            from .srcmodel import walk_no_nested
            isgen = _IS_GENERATOR[id(fn)] = any(isinstance(n, (ast.Yield, ast.YieldFrom)) for n in walk_no_nested(fn))
        if isgen:
            # a generator is run eagerly: its items are collected (sound for the pure stubs the tables use); an exception the
            # body raises after some items is delivered where a lazy generator would deliver it - after those items
            sub.yielded = []
            try:
                sub.run(fn.body)
            except Raised as exc:
                return _LateRaise(list(sub.yielded), exc)
            return iter(list(sub.yielded))
        return sub.run(fn.body)

    # ---- statements --------------------------------------------------------------------------------------
    def stmt(self, st):
        self.shared['steps'] += 1
        if isinstance(st, ast.Expr) and isinstance(st.value, (ast.Yield, ast.YieldFrom)):
            if getattr(self, 'yielded', None) is None:
                raise Unsupported('yield outside an interpreted generator')
            if isinstance(st.value, ast.Yield):
                self.yielded.append(self.ev(st.value.value) if st.value.value is not None else None)
            else:
                self.yielded.extend(list(self.ev(st.value.value)))
            return
        if isinstance(st, (ast.FunctionDef,)):
            self.env[st.name] = Closure(st, self)
            return
        if isinstance(st, ast.Raise):
            if st.exc is None:
                raise Raised('<re-raise>')
            v = self.ev(st.exc)
            if isinstance(v, Obj) and v.has('__exc__'):
                raise Raised(v.get('__exc__'), v.get('args') if v.has('args') else ())
            if isinstance(v, Obj):
                cq = object.__getattribute__(v, '_cls')
                raise Raised(cq.split('.')[-1] if cq else repr(v))
            if isinstance(v, type):
                raise Raised(v.__name__)
            if isinstance(v, PkgClass):
                raise Raised(v.qual.split('.')[-1])
            raise Unsupported('raise of an unknown value')
        if isinstance(st, ast.Delete):
            for t in st.targets:
                if isinstance(t, ast.Subscript):
                    base = self.ev(t.value)
                    if isinstance(t.slice, ast.Slice):
                        del base[:]
                    else:
                        k = self.ev(t.slice)
                        if isinstance(base, dict) and k not in base:
                            raise Raised('KeyError')
                        del base[k]
                elif isinstance(t, ast.Name):
                    self.env.pop(t.id, None)
                else:
                    raise Unsupported('del target')
            return
        if isinstance(st, ast.Try):
            try:
                self.block(st.body)
            except Raised as r:
                for h in st.handlers:
                    names = ['Exception'] if h.type is None else (
                        [ast.unparse(x) for x in h.type.elts] if isinstance(h.type, ast.Tuple) else [ast.unparse(h.type)])
                    from .excflow import catches
                    if any(catches(ast.parse(n, mode='eval').body, r.exc_name) for n in names):
                        if h.name:
                            self.env[h.name] = Obj(_name=r.exc_name, __exc__=r.exc_name)
                        self.block(h.body)
                        break
                else:
                    self.block(st.finalbody)
                    raise
            else:
                self.block(st.orelse)
            self.block(st.finalbody)
            return
        if isinstance(st, ast.AugAssign) and isinstance(st.target, (ast.Attribute, ast.Subscript)):
            cur = self.ev(st.target)
            val = self.ev(st.value)
            op = type(st.op)
            res = {ast.Add: lambda: cur + val, ast.Sub: lambda: cur - val, ast.BitOr: lambda: cur | val,
                   ast.BitAnd: lambda: cur & val, ast.Mult: lambda: cur * val}.get(op)
            if res is None:
                raise Unsupported('augmented operator')
            self.assign(st.target, res())
            return
        if isinstance(st, ast.Nonlocal):
            self.nonlocals = getattr(self, 'nonlocals', set()) | set(st.names)
            return
        if isinstance(st, ast.Global):
            self.globals_ = getattr(self, 'globals_', set()) | set(st.names)
            return
        if isinstance(st, (ast.Import, ast.ImportFrom, ast.Assert)):
            if isinstance(st, ast.Assert):
                return
            raise Unsupported(type(st).__name__)
        if isinstance(st, (ast.With,)):
            self.block(st.body)
            return
        return super().stmt(st)

    def assign(self, t, v):
        if isinstance(t, ast.Attribute):
            base = self.ev(t.value)
            if isinstance(base, Obj):
                base.set(t.attr, v)
                return
            raise Unsupported(f'store to attribute of {base!r}')
        if isinstance(t, ast.Subscript):
            base = self.ev(t.value)
            if isinstance(t.slice, ast.Slice) and isinstance(base, list):
                lo = self.ev(t.slice.lower) if t.slice.lower is not None else None
                hi = self.ev(t.slice.upper) if t.slice.upper is not None else None
                base[lo:hi] = list(v)
                return
            if isinstance(base, (dict, list)):
                try:
                    base[self.ev(t.slice)] = v
                except IndexError:
                    raise Raised('IndexError')
                except TypeError:
                    raise Raised('TypeError')
                return
            raise Unsupported('store to subscript')
        if isinstance(t, (ast.Tuple, ast.List)):
            try:
                vals = list(v)
            except TypeError:
                raise Raised('TypeError')
            stars = [i for i, x in enumerate(t.elts) if isinstance(x, ast.Starred)]
            if stars:
                i = stars[0]
                after = len(t.elts) - i - 1
                if len(vals) < len(t.elts) - 1:
                    raise Raised('ValueError')
                for x, y in zip(t.elts[:i], vals[:i]):
                    self.assign(x, y)
                self.assign(t.elts[i].value, vals[i:len(vals) - after])
                for x, y in zip(t.elts[i + 1:], vals[len(vals) - after:]):
                    self.assign(x, y)
                return
            if len(vals) != len(t.elts):
                raise Raised('ValueError')
            for x, y in zip(t.elts, vals):
                self.assign(x, y)
            return
        if isinstance(t, ast.Name):
            if t.id in getattr(self, 'nonlocals', ()) and getattr(self, 'outer_env', None) is not None:
                self.outer_env[t.id] = v
                return
            if t.id in getattr(self, 'globals_', ()):
                self.shared.setdefault('module_globals', {})[(self.mod.name, t.id)] = v
                return
        return super().assign(t, v)

    def cmp(self, op, a, b):
        if isinstance(op, (ast.Is, ast.IsNot)):
            return (a is b) if isinstance(op, ast.Is) else (a is not b)
        if isinstance(a, (Obj, Sym)) or isinstance(b, (Obj, Sym)):
            if isinstance(op, (ast.Eq, ast.NotEq)):
                # objects that model structural equality (bs4 tags compare by markup) carry an __eq_key__
                same = a is b
                if isinstance(a, Obj) and isinstance(b, Obj) and a.has('__eq_key__') and b.has('__eq_key__'):
                    same = a.get('__eq_key__') == b.get('__eq_key__')
                return same if isinstance(op, ast.Eq) else not same
            if isinstance(op, (ast.In, ast.NotIn)) and isinstance(b, (list, tuple, set, frozenset, dict)):
                # as Python: identity or ==, where == of abstract objects is identity unless they model structural equality
                # (bs4 tags compare - and hash - by markup); dicts and sets go through hash and ==
                if isinstance(a, Sym):
                    r = any(a is x for x in b)
                elif isinstance(b, (set, frozenset, dict)):
                    try:
                        r = a in b
                    except TypeError:
                        raise Raised('TypeError')
                else:
                    r = any(a is x or (isinstance(x, Obj) and isinstance(a, Obj) and a == x) for x in b)
                return r if isinstance(op, ast.In) else not r
            if isinstance(op, (ast.In, ast.NotIn)) and isinstance(b, Obj):
                f = self.dunder(b, '__contains__')
                if f is not None:
                    r = bool(self.apply(f, [a], {}))
                    return r if isinstance(op, ast.In) else not r
                if self.dunder(b, '__iter__') is not None:
                    r = any((a is x) or (not isinstance(a, (Obj, Sym)) and not isinstance(x, (Obj, Sym)) and a == x) for x in self.iterate(b))
                    return r if isinstance(op, ast.In) else not r
            raise Unsupported('ordering of abstract objects')
        return super().cmp(op, a, b)

    def dunder(self, o, name):
        """The protocol method `name` of a package-class object that carries no canned answer for it, or None."""
        if not isinstance(o, Obj) or o.has(name):
            return None
        cq = object.__getattribute__(o, '_cls')
        if not cq:
            return None
        mq = self.src.find_method(cq, name)
        if not mq:
            return None
        m_, fn_ = self.src.func(mq)
        return PkgFunc(m_, fn_, mq.split('.')[1], bound=o)

    def iterate(self, v):
        if hasattr(v, '__next__'):
            return v             # an iterator is drawn from lazily (other code may draw from it between two steps of the loop)
        f = self.dunder(v, '__iter__')
        if f is not None:
            return list(self.apply(f, [], {}))
        if isinstance(v, Obj) and not v.has('__iter__'):
            g = self.dunder(v, '__getitem__')
            if g is not None:
                raise Unsupported('iteration through __getitem__')
        return list(v)

    def truth(self, v):
        if isinstance(v, Obj):
            f = self.dunder(v, '__bool__')
            if f is not None:
                return bool(self.apply(f, [], {}))
            if not v.has('__bool__'):
                f = self.dunder(v, '__len__')
                if f is not None:
                    return self.apply(f, [], {}) != 0
            return bool(v)
        return super().truth(v)


def call_function(ctx, qual: str, args=(), kwargs=None, stubs=None, self_obj=None, options=None):
    """Interpret the package function `qual` ('css_match.CSSMatch.match_tag') on abstract arguments."""
    mod, fn = ctx.src.func(qual)
    parts = qual.split('.')
    cls = parts[1] if len(parts) == 3 else None
    shared = {'steps': 0}
    shared.update(options or {})
    stubs = dict(stubs or {})
    # a stub given by the spelling `self.<method>` also answers the same method reached through any other spelling (another
    # receiver name, a bound method kept in a table, a lambda parameter): alias it to the qualified name of the method
    scls = object.__getattribute__(self_obj, '_cls') if isinstance(self_obj, Obj) else (f'{mod.name}.{cls}' if cls else None)
    if scls:
        for k in list(stubs):
            if k.startswith('self.') and k.count('.') == 1:
                name = k[5:]
                for c in ctx.src.mro(scls):
                    mn_, _, cn_ = c.partition('.')
                    if mn_ in ctx.src.mods and f'{cn_}.{name}' in ctx.src.mods[mn_].functions:
                        stubs.setdefault(f'{mn_}.{cn_}.{name}', stubs[k])
                        break
    persist = shared.get('persist')
    if isinstance(persist, dict):
        # values that do not depend on the call (module-level tables, class attributes, parsed regexes) survive between calls
        shared.update({k: v for k, v in persist.items()})
    it = Interp(ctx, mod.name, cls, {}, stubs, shared=shared)
    try:
        return it.run_function(mod, fn, cls, list(args), dict(kwargs or {}), self_obj)
    finally:
        if isinstance(persist, dict):
            persist.update({k: v for k, v in shared.items() if isinstance(k, tuple) and k and k[0] in ('modvalue', 'classattr', 'const', 'rematch')})
            if shared.get('module_globals'):
                persist['module_globals'] = shared['module_globals']       # names rebound through `global`: state of the process
        if isinstance(shared.get('stats'), dict):
            shared['stats']['steps'] = shared['steps']
