"""E4: syntax-directed path walker with a small abstract state (no solver).

A client subclasses `Domain` and supplies transfer functions over an immutable, hashable state.  The walker
enumerates the structured control flow of one function body (if/elif/else, for/while with break/continue/else,
try/except/finally, with, return, raise, match is unsupported) and returns, per exit kind, the set of states that
can reach it.  Loops are solved by fix-point iteration over finite state sets (the domains used here are tiny).
"""
from __future__ import annotations

import ast
from dataclasses import dataclass, field

from .core import AnalysisError


@dataclass
class Out:
    normal: set = field(default_factory=set)
    brk: set = field(default_factory=set)
    cont: set = field(default_factory=set)
    ret: set = field(default_factory=set)
    rais: set = field(default_factory=set)

    def merge(self, o: 'Out') -> None:
        self.normal |= o.normal
        self.brk |= o.brk
        self.cont |= o.cont
        self.ret |= o.ret
        self.rais |= o.rais


class Domain:
    """Transfer functions; states must be hashable. Default: everything is the identity."""

    MAX_STATES = 4096

    def stmt(self, state, node: ast.stmt):
        """Effect of a simple statement (Assign, AugAssign, AnnAssign, Expr, Delete, Assert, Pass, Import ...).
        Return a state, an iterable of states, or None if the statement cannot complete normally."""
        return state

    def branch(self, state, test: ast.expr):
        """Return (state_if_true | None, state_if_false | None); None = infeasible."""
        return state, state

    def for_header(self, state, node: ast.For):
        """State at the start of an iteration (after binding the target)."""
        return state

    def for_exhausted(self, state, node: ast.For):
        return state

    def on_return(self, state, node: ast.Return):
        return state

    def on_raise(self, state, node: ast.Raise):
        return state

    def on_yield(self, state, node):
        return state

    def enter_with(self, state, node: ast.With):
        return state

    def handler(self, state, node: ast.ExceptHandler):
        return state

    def may_raise(self, state, node: ast.stmt) -> bool:
        """Whether a simple statement inside a try body may transfer control to a handler."""
        return True


class Walker:
    def __init__(self, domain: Domain):
        self.d = domain

    def _states(self, r):
        if r is None:
            return []
        if isinstance(r, (list, set, frozenset, tuple)) and not self._is_state(r):
            return list(r)
        return [r]

    def _is_state(self, r):
        return getattr(self.d, 'is_state', lambda x: not isinstance(x, (list, set)))(r)

    def block(self, stmts, states: set) -> Out:
        out = Out()
        cur = set(states)
        for st in stmts:
            if not cur:
                break
            o = self.statement(st, cur)
            cur = o.normal
            merge = getattr(self.d, 'merge', None)
            if merge is not None and len(cur) > 1:
                cur = merge(cur)
            o.normal = set()
            out.merge(o)
            if len(cur) > self.d.MAX_STATES:
                raise AnalysisError('path walker: state explosion')
        out.normal = cur
        return out

    def statement(self, st: ast.stmt, states: set) -> Out:
        d = self.d
        out = Out()
        if isinstance(st, ast.If):
            t_in, f_in = set(), set()
            for s in states:
                a, b = d.branch(s, st.test)
                if a is not None:
                    t_in.add(a)
                if b is not None:
                    f_in.add(b)
            if t_in:
                out.merge(self.block(st.body, t_in))
            if f_in:
                if st.orelse:
                    out.merge(self.block(st.orelse, f_in))
                else:
                    out.normal |= f_in
            return out
        if isinstance(st, ast.While):
            seen_heads: set = set()
            frontier = set(states)
            exits = set()
            while frontier:
                new = frontier - seen_heads
                if not new:
                    break
                seen_heads |= new
                t_in = set()
                for s in new:
                    a, b = d.branch(s, st.test)
                    if a is not None:
                        t_in.add(a)
                    if b is not None:
                        exits.add(b)
                frontier = set()
                if t_in:
                    o = self.block(st.body, t_in)
                    out.ret |= o.ret
                    out.rais |= o.rais
                    out.normal |= o.brk           # break leaves the loop, skipping else
                    frontier = o.normal | o.cont
                if len(seen_heads) > d.MAX_STATES:
                    raise AnalysisError('path walker: state explosion in while')
            if exits:
                if st.orelse:
                    out.merge(self.block(st.orelse, exits))
                else:
                    out.normal |= exits
            self.loop_heads = getattr(self, 'loop_heads', {})
            self.loop_heads[id(st)] = seen_heads
            return out
        if isinstance(st, ast.For):
            seen_heads = set()
            frontier = set(states)
            exits = set(d.for_exhausted(s, st) for s in states)    # zero iterations
            while frontier:
                new = frontier - seen_heads
                if not new:
                    break
                seen_heads |= new
                it_in = set()
                for s in new:
                    it_in.update(self._states(d.for_header(s, st)))
                o = self.block(st.body, it_in)
                out.ret |= o.ret
                out.rais |= o.rais
                out.normal |= o.brk
                ends = o.normal | o.cont
                for s in ends:
                    exits.add(d.for_exhausted(s, st))
                frontier = ends
                if len(seen_heads) > d.MAX_STATES:
                    raise AnalysisError('path walker: state explosion in for')
            if st.orelse:
                out.merge(self.block(st.orelse, exits))
            else:
                out.normal |= exits
            return out
        if isinstance(st, ast.Try):
            body = self._try_body(st.body, states)
            out.ret |= body.ret
            out.brk |= body.brk
            out.cont |= body.cont
            normal = body.normal
            if st.orelse and normal:
                o = self.block(st.orelse, normal)
                normal = o.normal
                o.normal = set()
                out.merge(o)
            handled_in = body.rais | getattr(body, 'mid', set())
            unhandled = set(body.rais)
            for h in st.handlers:
                h_in = set(d.handler(s, h) for s in handled_in)
                h_in.discard(None)
                if h_in:
                    o = self.block(h.body, h_in)
                    normal |= o.normal
                    o.normal = set()
                    out.merge(o)
                if h.type is None or (isinstance(h.type, ast.Name) and h.type.id in ('Exception', 'BaseException')):
                    unhandled = set()
            out.rais |= unhandled
            if st.finalbody:
                fin_all = Out()
                for kind in ('normal', 'brk', 'cont', 'ret', 'rais'):
                    src = normal if kind == 'normal' else getattr(out, kind)
                    if src:
                        o = self.block(st.finalbody, src)
                        getattr(fin_all, kind).update(o.normal)
                        o.normal = set()
                        fin_all.merge(o)
                return fin_all
            out.normal = normal
            return out
        if isinstance(st, (ast.With, ast.AsyncWith)):
            ins = set()
            for s in states:
                ins.update(self._states(d.enter_with(s, st)))
            return self.block(st.body, ins)
        if isinstance(st, ast.Return):
            out.ret = set(d.on_return(s, st) for s in states)
            return out
        if isinstance(st, ast.Raise):
            out.rais = set(d.on_raise(s, st) for s in states)
            return out
        if isinstance(st, ast.Break):
            out.brk = set(states)
            return out
        if isinstance(st, ast.Continue):
            out.cont = set(states)
            return out
        if isinstance(st, (ast.FunctionDef, ast.AsyncFunctionDef, ast.ClassDef)):
            hook = getattr(d, 'definition', None)
            out.normal = set(states) if hook is None else {hook(s, st) for s in states}
            return out
        if isinstance(st, ast.Match):
            raise AnalysisError('path walker: match statement not supported')
        # simple statement
        for s in states:
            for r in self._states(d.stmt(s, st)):
                out.normal.add(r)
        return out

    def _try_body(self, stmts, states):
        """Like block(), but records every intermediate state from which a handler may be entered."""
        out = Out()
        mid = set()
        cur = set(states)
        for st in stmts:
            if not cur:
                break
            for s in cur:
                if self.d.may_raise(s, st):
                    mid.add(s)
            o = self.statement(st, cur)
            # states raised inside nested statements also reach the handlers
            mid |= o.rais
            cur = o.normal
            o.normal = set()
            out.merge(o)
        out.normal = cur
        out.mid = mid          # type: ignore[attr-defined]
        return out


def walk_function(fn: ast.FunctionDef, domain: Domain, init) -> Out:
    w = Walker(domain)
    out = w.block(fn.body, {init})
    out.walker = w            # type: ignore[attr-defined]
    return out
