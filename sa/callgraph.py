"""E5: type-resolved call graph of the package, built on the mypy ASTs of E6.

Nodes are qualified names 'module.Class.method' / 'module.function' / 'module.outer.inner', plus the pseudo
functions 'module.<module>' (module-level code, incl. decorators, defaults and base lists) and
'module.Class.<class>' (class-level code).  An edge is added for every call *and every reference* to a package
function; receivers are resolved through their static type (incl. overriding subclasses); only Any-typed receivers
fall back to name matching and every such edge is recorded in `fallback_edges`.
"""
from __future__ import annotations

from collections import defaultdict

from .core import AnalysisError

PKG = 'soupsieve'


def short(fullname: str) -> str | None:
    """'soupsieve.css_match.CSSMatch.match' -> 'css_match.CSSMatch.match'; 'soupsieve.compile' -> '__init__.compile'."""
    if fullname == PKG:
        return '__init__'
    if not fullname.startswith(PKG + '.'):
        return None
    return fullname[len(PKG) + 1:]


class CallGraph:
    def __init__(self, tf, src):
        self.tf = tf
        self.src = src
        self.nodes = tf.nodes
        self.mt = tf.mt
        self.edges: dict[str, set[str]] = defaultdict(set)
        self.fallback_edges: list[tuple[str, str, str]] = []
        self.edge_sites: dict[tuple[str, str], set[int]] = defaultdict(set)   # (owner, target) -> source lines
        self._cur_line = 0
        self.external_calls: dict[str, list] = defaultdict(list)   # caller -> [(fullname or text, mypy CallExpr)]
        self.funcs: dict[str, object] = {}        # qual -> mypy FuncDef (or None for pseudo nodes)
        self.calls_in: dict[str, list] = defaultdict(list)   # qual -> mypy CallExpr nodes
        self.mod_of: dict[str, str] = {}
        self.modnames = {}
        for full, st in tf.res.graph.items():
            if full == PKG or full.startswith(PKG + '.'):
                m = '__init__' if full == PKG else full.split('.', 1)[1]
                self.modnames[full] = m
        self.methods_by_name: dict[str, list[str]] = defaultdict(list)
        for full, m in self.modnames.items():
            self._collect_defs(tf.res.graph[full].tree.defs, m, m, None)
        self.var_lambdas: dict[str, set[str]] = defaultdict(set)
        self.var_refs: list[tuple[str, str]] = []
        self._lvalue_ids: set[int] = set()
        self._table_ctx = None
        self._callee_ids: set[int] = set()
        for full, m in self.modnames.items():
            self._scan_block(tf.res.graph[full].tree.defs, f'{m}.<module>', m, None)
        for owner, full in self.var_refs:
            for q in self.var_lambdas.get(full, ()):
                self.edges[owner].add(q)

    # ---- definitions -----------------------------------------------------------------------------
    def _collect_defs(self, defs, prefix, mod, cls):
        n = self.nodes
        for d in defs:
            if isinstance(d, n.Decorator):
                d = d.func
            if isinstance(d, n.FuncDef):
                q = f'{prefix}.{d.name}'
                self.funcs[q] = d
                self.mod_of[q] = mod
                if cls:
                    self.methods_by_name[d.name].append(q)
                self._collect_defs(d.body.body, q, mod, None)
            elif isinstance(d, n.ClassDef):
                q = f'{prefix}.{d.name}'
                self._collect_defs(d.defs.body, q, mod, q)
            elif isinstance(d, (n.IfStmt,)):
                for b in d.body:
                    self._collect_defs(b.body, prefix, mod, cls)
                if d.else_body:
                    self._collect_defs(d.else_body.body, prefix, mod, cls)
            elif isinstance(d, n.TryStmt):
                self._collect_defs(d.body.body, prefix, mod, cls)
                for h in d.handlers:
                    self._collect_defs(h.body, prefix, mod, cls)

    # ---- scanning ----------------------------------------------------------------------------------
    def _scan_block(self, stmts, owner, mod, cls):
        n = self.nodes
        self.funcs.setdefault(owner, None)
        self.mod_of.setdefault(owner, mod)
        for st in stmts:
            if isinstance(st, n.Decorator):
                for dec in st.decorators:
                    self._scan_expr(dec, owner, mod, cls)
                self._scan_func(st.func, owner, mod, cls)
            elif isinstance(st, n.FuncDef):
                self._scan_func(st, owner, mod, cls)
            elif isinstance(st, n.ClassDef):
                q = owner.rsplit('.<', 1)[0] + '.' + st.name if owner.endswith('>') else f'{owner}.{st.name}'
                for b in st.base_type_exprs:
                    self._scan_expr(b, owner, mod, cls)
                for dec in st.decorators:
                    self._scan_expr(dec, owner, mod, cls)
                cowner = f'{q}.<class>'
                self._edge(owner, cowner)
                self._scan_block(st.defs.body, cowner, mod, q)
                # using a class may run its special methods implicitly (len(), iteration, ==, hash, repr)
                for d in st.defs.body:
                    fd = d.func if isinstance(d, n.Decorator) else d
                    if isinstance(fd, n.FuncDef) and fd.name.startswith('__') and fd.name.endswith('__') and fd.name != '__init__':
                        self.edges[cowner].add(f'{q}.{fd.name}')
            else:
                self._scan_stmt(st, owner, mod, cls)

    def _scan_func(self, fd, owner, mod, cls):
        base = owner.rsplit('.<', 1)[0] if owner.endswith('>') else owner
        q = f'{base}.{fd.name}'
        # defaults are evaluated in the enclosing scope at definition time
        for a in fd.arguments:
            if a.initializer is not None:
                self._scan_expr(a.initializer, owner, mod, cls)
        self.funcs[q] = fd
        self.mod_of[q] = mod
        self._scan_block_in_func(fd.body.body, q, mod, cls)

    def _scan_block_in_func(self, stmts, owner, mod, cls):
        n = self.nodes
        for st in stmts:
            if isinstance(st, n.Decorator):
                for dec in st.decorators:
                    self._scan_expr(dec, owner, mod, cls)
                self._edge(owner, f'{owner}.{st.func.name}')      # nested function: referenced by definition
                self._scan_func(st.func, owner, mod, cls)
            elif isinstance(st, n.FuncDef):
                self._edge(owner, f'{owner}.{st.name}')
                self._scan_func(st, owner, mod, cls)
            else:
                self._scan_stmt(st, owner, mod, cls)

    def _scan_stmt(self, st, owner, mod, cls):
        # generic traversal of one statement (nested statement blocks included, nested defs handled above)
        n = self.nodes
        stack = [st]
        seen = set()
        # a module- or class-level assignment that stores functions in a table (`CHECKS = (f, g)`, `{'k': self_method}`): the
        # functions are not called here; whoever reads the table may call them
        outer_table = self._table_ctx
        if owner.endswith('>') and isinstance(st, n.AssignmentStmt) and all(isinstance(lv, n.NameExpr) for lv in st.lvalues):
            names = []
            for lv in st.lvalues:
                names.append(lv.fullname or f'{mod}.{lv.name}')
                names.append('*.' + lv.name)
                self._lvalue_ids.add(id(lv))        # binding the table is not reading it
            self._table_ctx = names
            self._callee_ids = set()
            todo = [st.rvalue]
            seen_c = set()
            while todo:
                y = todo.pop()
                if id(y) in seen_c or not isinstance(y, n.Node):
                    continue
                seen_c.add(id(y))
                if isinstance(y, n.CallExpr):
                    self._callee_ids.add(id(y.callee))
                for name_ in self.tf._kids(type(y)):
                    if name_ in ('node', 'info', 'defn', 'type', 'unanalyzed_type', 'analyzed', 'impl', 'original_def', 'var', 'func_def',
                                 'type_annotation', 'unanalyzed_items', 'fullname', 'name'):
                        continue
                    try:
                        v = getattr(y, name_)
                    except Exception:  # noqa: BLE001
                        continue
                    st3 = [v]
                    while st3:
                        z = st3.pop()
                        if isinstance(z, n.Node):
                            todo.append(z)
                        elif isinstance(z, (list, tuple)):
                            st3.extend(z)
        try:
            self._scan_stmt_inner(st, owner, mod, cls, stack, seen)
        finally:
            self._table_ctx = outer_table

    def _scan_stmt_inner(self, st, owner, mod, cls, stack, seen):
        n = self.nodes
        while stack:
            x = stack.pop()
            if id(x) in seen:
                continue
            seen.add(id(x))
            if isinstance(x, (n.FuncDef, n.Decorator)) and x is not st:
                if owner.endswith('>'):
                    self._scan_block([x], owner, mod, cls)
                else:
                    self._scan_block_in_func([x], owner, mod, cls)
                continue
            if isinstance(x, n.ClassDef) and x is not st:
                self._scan_block([x], owner, mod, cls)
                continue
            if isinstance(x, n.LambdaExpr):
                # a lambda body runs when the lambda is called, not where it is written.  A lambda stored in a module- or
                # class-level variable is reachable from whoever references that variable; any other lambda is taken to be
                # called by the code that creates it.
                q = f'{mod}.<lambda:{x.line}:{x.column}>'
                self.funcs.setdefault(q, None)
                self.mod_of.setdefault(q, mod)
                holder = None
                if owner.endswith('>') and isinstance(st, n.AssignmentStmt) and all(isinstance(lv, n.NameExpr) for lv in st.lvalues):
                    holder = [lv for lv in st.lvalues]
                if holder:
                    for lv in holder:
                        self.var_lambdas[lv.fullname or f'{mod}.{lv.name}'].add(q)
                        self.var_lambdas['*.' + lv.name].add(q)
                        self._lvalue_ids.add(id(lv))
                else:
                    self._edge(owner, q)
                for a in x.arguments:
                    if a.initializer is not None:
                        self._scan_expr(a.initializer, owner, mod, cls)
                for b in x.body.body:
                    self._scan_stmt(b, q, mod, cls)
                continue
            if isinstance(x, n.Expression):
                self._visit_expr(x, owner, mod, cls)
            for name in self.tf._kids(type(x)):
                if name in ('node', 'info', 'defn', 'type', 'unanalyzed_type', 'analyzed', 'impl', 'original_def', 'var',
                            'func_def', 'type_annotation', 'unanalyzed_items', 'fullname', 'name'):
                    continue
                try:
                    v = getattr(x, name)
                except Exception:  # noqa: BLE001
                    continue
                st2 = [v]
                while st2:
                    y = st2.pop()
                    if isinstance(y, n.Node):
                        stack.append(y)
                    elif isinstance(y, (list, tuple)):
                        st2.extend(y)

    def _scan_expr(self, e, owner, mod, cls):
        self._scan_stmt(e, owner, mod, cls)

    def _edge(self, owner, target):
        self.edges[owner].add(target)
        self.edge_sites[(owner, target)].add(self._cur_line)

    # ---- resolution ----------------------------------------------------------------------------------
    def _add(self, owner, target_full):
        s = short(target_full)
        if s is None:
            return False
        self._edge(owner, s)
        return True

    def _method_targets(self, info, name):
        """Qualified names a call of `name` on static type `info` can reach (definition + package overrides)."""
        out = []
        sym = info.get(name)
        if sym is not None and sym.node is not None and getattr(sym.node, 'fullname', None):
            s = short(sym.node.fullname)
            if s and isinstance(sym.node, (self.nodes.FuncDef, self.nodes.Decorator, self.nodes.OverloadedFuncDef)):
                out.append(s)
        cq = short(info.fullname)
        if cq and '.' in cq:
            for sub in self.src.subclasses(cq) if cq.split('.', 1)[1] in self.src.mods.get(cq.split('.')[0], type('x', (), {'classes': {}})).classes else []:
                mn, _, cn = sub.partition('.')
                if f'{cn}.{name}' in self.src.mods[mn].functions:
                    out.append(f'{mn}.{cn}.{name}')
        return out

    def _infos_of_type(self, t):
        mt = self.mt
        out = []
        for i in self.tf.items(t):
            if isinstance(i, mt.Instance):
                out.append(i.type)
            elif isinstance(i, mt.TypeType):
                out.extend(self._infos_of_type(i.item))
            elif isinstance(i, mt.CallableType) and i.is_type_obj():
                out.extend(self._infos_of_type(i.ret_type))
            elif isinstance(i, mt.TypeVarType):
                out.extend(self._infos_of_type(i.upper_bound))
            elif isinstance(i, mt.TupleType):
                out.extend(self._infos_of_type(i.partial_fallback))
        return out

    def _visit_expr(self, x, owner, mod, cls):
        n = self.nodes
        if getattr(x, 'line', -1) and x.line > 0:
            self._cur_line = x.line
        if isinstance(x, n.CallExpr):
            self.calls_in[owner].append(x)
        if isinstance(x, n.NameExpr):
            nd = x.node
            if isinstance(nd, n.Var) and id(x) not in self._lvalue_ids and getattr(nd, 'fullname', None):
                self.var_refs.append((owner, nd.fullname))
            if isinstance(nd, (n.FuncDef, n.Decorator, n.OverloadedFuncDef)) and nd.fullname:
                if self._table_ctx and id(x) not in self._callee_ids and short(nd.fullname):
                    for key_ in self._table_ctx:
                        self.var_lambdas[key_].add(short(nd.fullname))
                else:
                    self._add(owner, nd.fullname)
            elif isinstance(nd, n.TypeInfo):
                s = short(nd.fullname)
                if s:
                    self._edge(owner, s + '.<class>')
                    for base in nd.mro:
                        sym = base.names.get('__init__')
                        if sym is not None and getattr(sym.node, 'fullname', None) and short(sym.node.fullname):
                            self._add(owner, sym.node.fullname)
                            break
            return
        if isinstance(x, n.SuperExpr):
            info = x.info
            if info is not None:
                for base in info.mro[1:]:
                    sym = base.names.get(x.name)
                    if sym is not None and getattr(sym.node, 'fullname', None):
                        self._add(owner, sym.node.fullname)
                        break
            return
        if isinstance(x, n.MemberExpr):
            # module attribute: alias.f
            if isinstance(x.expr, n.NameExpr) and isinstance(x.expr.node, n.MypyFile):
                full = f'{x.expr.node.fullname}.{x.name}'
                self.var_refs.append((owner, full))
                s = short(full)
                if s:
                    modq = self.modnames.get(x.expr.node.fullname)
                    if modq is not None:
                        if f'{modq}.{x.name}' in self.funcs:
                            self._edge(owner, f'{modq}.{x.name}')
                        elif x.name in self.src.mods[modq].classes:
                            self._edge(owner, f'{modq}.{x.name}.<class>')
                            init = self.src.find_method(f'{modq}.{x.name}', '__init__')
                            if init:
                                self._edge(owner, init)
                return
            self.var_refs.append((owner, '*.' + x.name))
            t = self.tf.types.get(x.expr)
            infos = self._infos_of_type(t)
            resolved = False
            in_table = bool(self._table_ctx) and id(x) not in self._callee_ids
            for info in infos:
                for tgt in self._method_targets(info, x.name):
                    if in_table:
                        for key_ in self._table_ctx:
                            self.var_lambdas[key_].add(tgt)       # a method kept in a table: reached by whoever reads the table
                    else:
                        self._edge(owner, tgt)
                    resolved = True
            if not infos and (t is None or self.tf.is_any(t)):
                # Any-typed receiver: name-based fallback restricted to package methods
                for q in self.methods_by_name.get(x.name, []):
                    self._edge(owner, q)
                    self.fallback_edges.append((owner, q, x.name))
            return

    # ---- queries ---------------------------------------------------------------------------------------
    def reachable(self, entries) -> set[str]:
        seen = set()
        stack = list(entries)
        while stack:
            f = stack.pop()
            if f in seen:
                continue
            seen.add(f)
            stack.extend(self.edges.get(f, ()))
        return seen

    def path(self, entries, target) -> list[str] | None:
        from collections import deque
        prev = {e: None for e in entries}
        dq = deque(entries)
        while dq:
            f = dq.popleft()
            if f == target:
                out = []
                while f is not None:
                    out.append(f)
                    f = prev[f]
                return out[::-1]
            for g in self.edges.get(f, ()):
                if g not in prev:
                    prev[g] = f
                    dq.append(g)
        return None

    def import_entries(self) -> list[str]:
        return [f'{m}.<module>' for m in self.modnames.values()]
