"""E3: automata over regex *source* (nothing is compiled or matched with `re`).

Front end: CPython's own regex parser (re._parser.parse).  Back end: eps-NFA with
  * exact look-aheads / `$`  : an *obligation* attached to a configuration; an obligation is a state of the
    (lazily) determinised automaton of the look-ahead's own language, built with the same machinery, so nested
    look-aheads are exact as well;
  * exact single-character look-behinds and `^` : configurations carry the last consumed atom (or START);
  * loops whose iteration consumes nothing are not paths (sre rejects empty iterations).
Analyses: EDA (exponential ambiguity) with witness, shortest word, determinisation over a shared alphabet of
atoms, inclusion / equivalence / prefix-intersection, group sub-languages and one-symbol quotients, longest word.
"""
from __future__ import annotations

import re
import re._constants as sc
import re._parser as sp
from collections import deque
from functools import lru_cache

MAXCP = 0x110000


class Unsupported(Exception):
    """Construct outside the exact model (back-reference, long look-behind, \\b ...)."""


# ------------------------------------------------------------------------------------------ interval sets
class CS:
    """Set of code points as sorted disjoint half-open intervals."""
    __slots__ = ('iv', '_h')

    def __init__(self, iv=()):
        self.iv = tuple(iv)
        self._h = hash(self.iv)

    @staticmethod
    def of(*cps):
        return CS.norm([(c, c + 1) for c in cps])

    @staticmethod
    def rng(a, b):
        return CS(((a, b + 1),)) if a <= b else CS()

    @staticmethod
    def norm(iv):
        iv = sorted(i for i in iv if i[0] < i[1])
        out = []
        for a, b in iv:
            if out and a <= out[-1][1]:
                out[-1] = (out[-1][0], max(out[-1][1], b))
            else:
                out.append((a, b))
        return CS(out)

    def __or__(self, o):
        return CS.norm(self.iv + o.iv)

    def neg(self):
        out = []
        last = 0
        for a, b in self.iv:
            if a > last:
                out.append((last, a))
            last = b
        if last < MAXCP:
            out.append((last, MAXCP))
        return CS(out)

    def __and__(self, o):
        return (self.neg() | o.neg()).neg()

    def __sub__(self, o):
        return self & o.neg()

    def __bool__(self):
        return bool(self.iv)

    def __eq__(self, o):
        return isinstance(o, CS) and self.iv == o.iv

    def __hash__(self):
        return self._h

    def __contains__(self, c):
        iv = self.iv
        lo, hi = 0, len(iv)
        while lo < hi:
            mid = (lo + hi) // 2
            if iv[mid][1] <= c:
                lo = mid + 1
            else:
                hi = mid
        return lo < len(iv) and iv[lo][0] <= c

    def __le__(self, o):
        return not (self - o)

    def size(self):
        return sum(b - a for a, b in self.iv)

    def max(self):
        return self.iv[-1][1] - 1

    def min(self):
        return self.iv[0][0]

    def sample(self):
        for lo, hi in self.iv:
            for c in range(max(lo, 0x21), min(hi, 0x7f)):
                return c
        return self.iv[0][0]

    def __repr__(self):
        def f(c):
            return repr(chr(c))[1:-1] if 0x20 <= c < 0x7f else f'\\x{c:02x}' if c < 256 else f'\\u{c:04x}'
        return '[' + ''.join(f(a) if b == a + 1 else f'{f(a)}-{f(b - 1)}' for a, b in self.iv[:8]) + \
            ('...' if len(self.iv) > 8 else '') + ']'


ALL = CS(((0, MAXCP),))
NL = CS.of(10)


@lru_cache(None)
def category(cat):
    def build(pred):
        iv = []
        start = None
        for c in range(MAXCP):
            if pred(chr(c)):
                if start is None:
                    start = c
            elif start is not None:
                iv.append((start, c))
                start = None
        if start is not None:
            iv.append((start, MAXCP))
        return CS(iv)
    if cat in (sc.CATEGORY_DIGIT, sc.CATEGORY_NOT_DIGIT):
        s = build(lambda ch: ch.isdecimal())
        return s if cat == sc.CATEGORY_DIGIT else s.neg()
    if cat in (sc.CATEGORY_SPACE, sc.CATEGORY_NOT_SPACE):
        s = build(lambda ch: ch.isspace())
        return s if cat == sc.CATEGORY_SPACE else s.neg()
    if cat in (sc.CATEGORY_WORD, sc.CATEGORY_NOT_WORD):
        s = build(lambda ch: ch.isalnum() or ch == '_')
        return s if cat == sc.CATEGORY_WORD else s.neg()
    raise Unsupported(f'category {cat}')


_FOLD_CLASSES = None


def fold_classes():
    """Equivalence classes (size > 1) of code points under sre's IGNORECASE for str patterns: equal simple lower-case
    mapping, joined through re._casefix._EXTRA_CASES.  Tables of the interpreter, not of soupsieve."""
    global _FOLD_CLASSES
    if _FOLD_CLASSES is None:
        try:
            from re._casefix import _EXTRA_CASES
        except ImportError:  # pragma: no cover
            _EXTRA_CASES = {}
        parent = {}

        def find(x):
            while parent.get(x, x) != x:
                parent[x] = parent.get(parent[x], parent[x])
                x = parent[x]
            return x

        def union(a, b):
            ra, rb = find(a), find(b)
            if ra != rb:
                parent[ra] = rb
        for c in range(MAXCP):
            ch = chr(c)
            lo = ch.lower()
            if lo != ch and lo:
                union(c, ord(lo[0]))
        for k, extras in _EXTRA_CASES.items():
            for e in extras:
                union(k, e)
        groups = {}
        for c in list(parent):
            groups.setdefault(find(c), set()).add(c)
        for r, g in groups.items():
            g.add(r)
        _FOLD_CLASSES = [frozenset(g) for g in groups.values() if len(g) > 1]
    return _FOLD_CLASSES


_fold_memo: dict = {}


def casefold_set(cs: CS) -> CS:
    """Close a set under sre's IGNORECASE (str patterns)."""
    hit = _fold_memo.get(cs)
    if hit is None:
        hit = _fold_memo[cs] = _casefold_set(cs)
    return hit


def _casefold_set(cs: CS) -> CS:
    extra = []
    for g in fold_classes():
        if any(c in cs for c in g):
            extra.extend((c, c + 1) for c in g)
    return cs | CS.norm(extra) if extra else cs


# ------------------------------------------------------------------------------------------ eps-NFA
EOFSYM = 'EOF'
START = -1


class NFA:
    def __init__(self):
        self.n = 0
        self.eps: list[list] = []   # q -> [(q2, tag)] in priority order
        self.sym: list[list] = []   # q -> [(CS | EOFSYM, q2)]
        self.subs: list[tuple[int, int]] = []   # look-ahead sub automata (start, final)
        self.lb_sets: set[CS] = set()
        self.has_lb = False

    def new(self):
        self.eps.append([])
        self.sym.append([])
        self.n += 1
        return self.n - 1

    def add_eps(self, a, b, tag=None):
        self.eps[a].append((b, tag))

    def add_sym(self, a, cs, b):
        if cs is EOFSYM or cs:
            self.sym[a].append((cs, b))


def find_group(seq, gid):
    for op, av in seq:
        if op is sc.SUBPATTERN:
            if av[0] == gid:
                return av[3], (av[1], av[2])
            r = find_group(av[3], gid)
            if r is not None:
                return r
        elif op is sc.BRANCH:
            for alt in av[1]:
                r = find_group(alt, gid)
                if r is not None:
                    return r
        elif op in (sc.MAX_REPEAT, sc.MIN_REPEAT, getattr(sc, 'POSSESSIVE_REPEAT', None)):
            r = find_group(av[2], gid)
            if r is not None:
                return r
        elif op in (sc.ASSERT, sc.ASSERT_NOT):
            r = find_group(av[1], gid)
            if r is not None:
                return r
        elif op is getattr(sc, 'ATOMIC_GROUP', None):
            r = find_group(av, gid)
            if r is not None:
                return r
    return None


class System:
    """Several regexes compiled into one NFA so that they share one alphabet of atoms."""

    REPEAT_CAP = 64

    def __init__(self):
        self.nfa = NFA()
        self.auts: dict[str, Aut] = {}
        self.atoms: list[CS] | None = None
        self._cs2atoms: dict = {}
        self.notes: list[str] = []

    # ---- construction --------------------------------------------------------------------------
    def add(self, name: str, pattern: str, flags: int = 0, group=None, mid_start: bool = False, strict_end: bool = False) -> 'Aut':
        """strict_end=True reads every `$` as `\\Z` (end of input only) - used to ask whether the two differ."""
        if self.atoms is not None:
            raise RuntimeError('alphabet already frozen')
        self._strict_end = strict_end
        tree = sp.parse(pattern, flags)
        fl = tree.state.flags
        seq = tree
        if group is not None:
            gid = tree.state.groupdict[group] if isinstance(group, str) else group
            found = find_group(tree, gid)
            if found is None:
                raise Unsupported(f'group {group!r} not found')
            seq, (add, dele) = found
            fl = (fl | add) & ~dele
            mid_start = True
        s = self.nfa.new()
        f = self.build(seq, s, fl)
        aut = Aut(self, name, s, f, dict(tree.state.groupdict), mid_start, pattern)
        self.auts[name] = aut
        return aut

    def add_seq(self, name: str, seq, flags: int, mid_start: bool = False) -> 'Aut':
        """Add an automaton for an already parsed (possibly rewritten) item sequence."""
        if self.atoms is not None:
            raise RuntimeError('alphabet already frozen')
        s = self.nfa.new()
        f = self.build(seq, s, flags)
        aut = Aut(self, name, s, f, {}, mid_start, '<seq>')
        self.auts[name] = aut
        return aut

    def build(self, seq, q, flags):
        for op, av in seq:
            q = self.node(op, av, q, flags)
        return q

    def charset(self, items, flags):
        neg = False
        cs = CS()
        for op, av in items:
            if op is sc.NEGATE:
                neg = True
            elif op is sc.LITERAL:
                cs = cs | CS.of(av)
            elif op is sc.RANGE:
                cs = cs | CS.rng(av[0], av[1])
            elif op is sc.CATEGORY:
                cs = cs | category(av)
            else:
                raise Unsupported(f'charset item {op}')
        if flags & re.I:
            cs = casefold_set(cs)
        if neg:
            cs = cs.neg()
        return cs

    def single_char_set(self, sub, flags):
        """CS matched by a sub-pattern that is exactly one character wide, else None."""
        if len(sub) != 1:
            return None
        op, av = sub[0]
        if op is sc.LITERAL:
            cs = CS.of(av)
            return casefold_set(cs) if flags & re.I else cs
        if op is sc.NOT_LITERAL:
            cs = CS.of(av)
            return (casefold_set(cs) if flags & re.I else cs).neg()
        if op is sc.IN:
            return self.charset(av, flags)
        if op is sc.ANY:
            return ALL if flags & re.S else ALL - NL
        if op is sc.SUBPATTERN:
            return self.single_char_set(av[3], (flags | av[1]) & ~av[2])
        if op is sc.BRANCH:
            out = CS()
            for alt in av[1]:
                s = self.single_char_set(alt, flags)
                if s is None:
                    return None
                out = out | s
            return out
        return None

    def node(self, op, av, q, flags):
        n = self.nfa
        if op is sc.LITERAL:
            cs = CS.of(av)
            if flags & re.I:
                cs = casefold_set(cs)
            r = n.new()
            n.add_sym(q, cs, r)
            return r
        if op is sc.NOT_LITERAL:
            cs = CS.of(av)
            if flags & re.I:
                cs = casefold_set(cs)
            r = n.new()
            n.add_sym(q, cs.neg(), r)
            return r
        if op is sc.ANY:
            r = n.new()
            n.add_sym(q, ALL if flags & re.S else ALL - NL, r)
            return r
        if op is sc.IN:
            r = n.new()
            n.add_sym(q, self.charset(av, flags), r)
            return r
        if op is sc.BRANCH:
            r = n.new()
            for alt in av[1]:
                s = n.new()
                n.add_eps(q, s)
                e = self.build(alt, s, flags)
                n.add_eps(e, r)
            return r
        if op is sc.SUBPATTERN:
            gid, add, dele, sub = av
            f = (flags | add) & ~dele
            s = n.new()
            n.add_eps(q, s)
            e = self.build(sub, s, f)
            r = n.new()
            n.add_eps(e, r)
            return r
        if op in (sc.MAX_REPEAT, sc.MIN_REPEAT, getattr(sc, 'POSSESSIVE_REPEAT', None)):
            lo, hi, sub = av
            greedy = op is not sc.MIN_REPEAT
            if op is getattr(sc, 'POSSESSIVE_REPEAT', None):
                self.notes.append('possessive repeat analysed as greedy (over-approximates paths)')
            if lo > self.REPEAT_CAP or (hi is not sc.MAXREPEAT and hi > self.REPEAT_CAP):
                raise Unsupported(f'bounded repeat above {self.REPEAT_CAP}')
            for _ in range(lo):
                q = self.build(sub, q, flags)
            if hi is sc.MAXREPEAT:
                h = n.new()
                out = n.new()
                n.add_eps(q, h)
                b = n.new()
                if greedy:
                    n.add_eps(h, b, ('enter', h))
                    n.add_eps(h, out)
                else:
                    n.add_eps(h, out)
                    n.add_eps(h, b, ('enter', h))
                e = self.build(sub, b, flags)
                n.add_eps(e, h, ('back', h))
                return out
            out = n.new()
            cur = q
            for _ in range(hi - lo):
                b = n.new()
                if greedy:
                    n.add_eps(cur, b)
                    n.add_eps(cur, out)
                else:
                    n.add_eps(cur, out)
                    n.add_eps(cur, b)
                cur = self.build(sub, b, flags)
            n.add_eps(cur, out)
            return out
        if op is sc.AT:
            r = n.new()
            if av in (sc.AT_END, sc.AT_END_STRING):
                if flags & re.M and av is sc.AT_END:
                    raise Unsupported('$ under MULTILINE')
                s = n.new()
                f = n.new()
                if av is sc.AT_END and not getattr(self, '_strict_end', False):
                    m = n.new()
                    n.add_sym(s, NL, m)
                    n.add_sym(m, EOFSYM, f)
                n.add_sym(s, EOFSYM, f)
                n.subs.append((s, f))
                n.add_eps(q, r, ('obl', True, len(n.subs) - 1))
                return r
            if av in (sc.AT_BEGINNING, sc.AT_BEGINNING_STRING):
                if flags & re.M and av is sc.AT_BEGINNING:
                    raise Unsupported('^ under MULTILINE')
                n.has_lb = True
                n.add_eps(q, r, ('lb', True, START))
                return r
            raise Unsupported(f'anchor {av}')
        if op in (sc.ASSERT, sc.ASSERT_NOT):
            direction, sub = av
            r = n.new()
            pol = op is sc.ASSERT
            if direction < 0:
                # (?<=^) and single-character look-behinds are exact; anything longer is unsupported
                if len(sub) == 1 and sub[0][0] is sc.AT and sub[0][1] in (sc.AT_BEGINNING, sc.AT_BEGINNING_STRING):
                    n.has_lb = True
                    n.add_eps(q, r, ('lb', pol, START))
                    return r
                cs = self.single_char_set(sub, flags)
                if cs is None:
                    raise Unsupported('look-behind wider than one character')
                n.has_lb = True
                n.lb_sets.add(cs)
                n.add_eps(q, r, ('lb', pol, cs))
                return r
            s = n.new()
            f = self.build(sub, s, flags)
            n.subs.append((s, f))
            n.add_eps(q, r, ('obl', pol, len(n.subs) - 1))
            return r
        if op is getattr(sc, 'ATOMIC_GROUP', None):
            self.notes.append('atomic group analysed as a plain group (over-approximates paths)')
            return self.build(av, q, flags)
        raise Unsupported(f'regex construct {op}')

    # ---- alphabet ------------------------------------------------------------------------------
    def freeze(self):
        if self.atoms is not None:
            return
        sets = set(self.nfa.lb_sets)
        for q in range(self.nfa.n):
            for cs, _ in self.nfa.sym[q]:
                if cs is not EOFSYM:
                    sets.add(cs)
        sets = list(sets)
        bounds = {0, MAXCP}
        for s in sets:
            for a, b in s.iv:
                bounds.add(a)
                bounds.add(b)
        bounds = sorted(bounds)
        # signature of each elementary interval = set of sets containing it
        starts = {}
        for i, s in enumerate(sets):
            for a, b in s.iv:
                starts.setdefault(a, []).append((i, +1))
                starts.setdefault(b, []).append((i, -1))
        cur = set()
        sig2iv = {}
        for a, b in zip(bounds, bounds[1:]):
            for i, d in starts.get(a, ()):
                if d > 0:
                    cur.add(i)
                else:
                    cur.discard(i)
            sig2iv.setdefault(frozenset(cur), []).append((a, b))
        items = sorted(sig2iv.items(), key=lambda kv: kv[1][0])
        self.atoms = [CS(iv) for _, iv in items]
        self.nat = len(self.atoms)
        self.EOF = self.nat
        memo = {i: set() for i in range(len(sets))}
        for ai, (sig, _) in enumerate(items):
            for i in sig:
                memo[i].add(ai)
        self._cs2atoms = {s: frozenset(memo[i]) for i, s in enumerate(sets)}
        self._eof_label = frozenset([self.EOF])
        self.track_last = self.nfa.has_lb

    def label(self, cs):
        return self._eof_label if cs is EOFSYM else self._cs2atoms[cs]

    def word(self, atoms) -> str:
        return ''.join('' if a == self.EOF else chr(self.atoms[a].sample()) for a in atoms)


class Aut:
    """One regex (or group) inside a System: configuration semantics, determinisation, ambiguity."""

    def __init__(self, system: System, name: str, start: int, final: int, groupdict, mid_start: bool, pattern: str):
        self.sys = system
        self.nfa = system.nfa
        self.name = name
        self.start = start
        self.final = final
        self.groupdict = groupdict
        self.mid_start = mid_start
        self.pattern = pattern
        self.prefix_lang = False     # True: the language is "strings on which a prefix match succeeds"
        self._closure_memo: dict = {}
        self._obl_init_memo: dict = {}
        self._obl_step_memo: dict = {}

    # ---- configurations: (state, obligations, last) -------------------------------------------------
    def _terminal(self, q):
        return not self.nfa.eps[q] and not self.nfa.sym[q]

    def closure(self, q, obs, last):
        """All configurations with a symbol edge (or terminal) reachable by eps-paths from (q, obs, last),
        with the number of distinct eps-paths (capped at 2)."""
        key = (q, obs, last)
        hit = self._closure_memo.get(key)
        if hit is not None:
            return hit
        res: dict = {}
        nfa = self.nfa
        stack = [(q, obs, frozenset())]
        while stack:
            s, ob, entered = stack.pop()
            if nfa.sym[s] or self._terminal(s):
                k = (s, ob, last)
                res[k] = min(2, res.get(k, 0) + 1)
            for r, tag in nfa.eps[s]:
                ob2 = ob
                ent2 = entered
                if tag is not None:
                    kind = tag[0]
                    if kind == 'obl':
                        new = self.new_obligation(tag[1], tag[2], last)
                        if new == 'dead':
                            continue
                        if new != 'ok':
                            ob2 = ob | frozenset([new])
                    elif kind == 'lb':
                        pol, what = tag[1], tag[2]
                        if what == START:
                            holds = last == START
                        else:
                            holds = last is not None and last != START and last in self.sys.label(what)
                        if holds != pol:
                            continue
                    elif kind == 'enter':
                        if tag[1] in entered:
                            continue
                        ent2 = entered | {tag[1]}
                    elif kind == 'back':
                        if tag[1] in entered:
                            continue   # an iteration that consumed nothing
                stack.append((r, ob2, ent2))
        self._closure_memo[key] = res
        return res

    # ---- obligations: (polarity, sub id, determinised state of the sub automaton) ---------------------
    def _judge(self, pol, sid, D):
        f = self.nfa.subs[sid][1]
        for (q, obs, _) in D:
            if q == f and not obs:
                return 'ok' if pol else 'dead'
        if not D:
            return 'dead' if pol else 'ok'
        return (pol, sid, D)

    def new_obligation(self, pol, sid, last):
        key = (pol, sid, last)
        hit = self._obl_init_memo.get(key)
        if hit is None:
            s, _ = self.nfa.subs[sid]
            D = frozenset(self.closure(s, frozenset(), last))
            hit = self._judge(pol, sid, D)
            self._obl_init_memo[key] = hit
        return hit

    def step_set(self, D, a, final, prefix_mode):
        """Successor set of configurations of D on atom a (set semantics)."""
        out = set()
        nfa = self.nfa
        tl = self.sys.track_last
        for (q, obs, last) in D:
            if q == final:
                if prefix_mode and a != self.sys.EOF:
                    obs2 = self.advance(obs, a)
                    if obs2 is not None:
                        out.add((q, obs2, a if tl else None))
                elif prefix_mode and a == self.sys.EOF:
                    obs2 = self.advance(obs, a)
                    if obs2 is not None:
                        out.add((q, obs2, last))
                continue
            obs2 = None
            for cs, r in nfa.sym[q]:
                if a in self.sys.label(cs):
                    if obs2 is None:
                        obs2 = self.advance(obs, a)
                        if obs2 is None:
                            break
                    out.update(self.closure(r, obs2, (a if tl else None) if a != self.sys.EOF else last))
        return frozenset(out)

    def step_obligation(self, ob, a):
        key = (ob, a)
        hit = self._obl_step_memo.get(key)
        if hit is None:
            pol, sid, D = ob
            f = self.nfa.subs[sid][1]
            D2 = self.step_set(D, a, f, True)
            hit = self._judge(pol, sid, D2)
            if a == self.sys.EOF and hit not in ('ok', 'dead'):
                hit = 'dead' if pol else 'ok'    # nothing follows the end of input
            self._obl_step_memo[key] = hit
        return hit

    def advance(self, obs, a):
        if not obs:
            return obs
        out = set()
        for ob in obs:
            r = self.step_obligation(ob, a)
            if r == 'dead':
                return None
            if r != 'ok':
                out.add(r)
        return frozenset(out)

    # ---- set semantics (languages) -------------------------------------------------------------------
    def initial_lasts(self):
        if not self.sys.track_last:
            return [None]
        lasts = [START]
        if self.mid_start:
            lasts += list(range(self.sys.nat))
        return lasts

    def init(self):
        out = set()
        for last in self.initial_lasts():
            out.update(self.closure(self.start, frozenset(), last))
        return frozenset(out)

    def step(self, S, a, prefix_mode=False):
        return self.step_set(S, a, self.final, prefix_mode or self.prefix_lang)

    def accepts_at_end(self, S):
        """Full-match acceptance: a configuration at the final state whose obligations all resolve at EOF."""
        for (q, obs, _) in S:
            if q == self.final and self.advance(obs, self.sys.EOF) is not None:
                return True
        return False

    def matched_now(self, S):
        """Prefix acceptance independent of what follows."""
        return any(q == self.final and not obs for (q, obs, _) in S)

    # ---- shortest match ---------------------------------------------------------------------------------
    def shortest(self, cap=100000):
        """Length of the shortest string consumed by a successful match (prefix semantics) and a witness.
        Returns (None, None) if the language is empty."""
        self.sys.freeze()
        start = self.init()
        seen = {start: None}
        dq = deque([(start, 0)])
        while dq:
            S, d = dq.popleft()
            if self.matched_now(S) or self.accepts_at_end(S) or self._can_finish(S):
                w = []
                cur = S
                while seen[cur] is not None:
                    cur, a = seen[cur]
                    w.append(a)
                return d, self.sys.word(reversed(w))
            for a in range(self.sys.nat):
                T = self.step(S, a)
                if T and T not in seen:
                    seen[T] = (S, a)
                    dq.append((T, d + 1))
                    if len(seen) > cap:
                        raise Unsupported('state space too large in shortest()')
        return None, None

    def _can_finish(self, S):
        """Some configuration is at the final state and its pending obligations are satisfiable by some suffix."""
        finals = [(q, obs, last) for (q, obs, last) in S if q == self.final]
        for cfg in finals:
            if self._satisfiable(frozenset([cfg])):
                return True
        return False

    def _satisfiable(self, S, cap=20000):
        seen = {S}
        dq = deque([S])
        while dq:
            cur = dq.popleft()
            if self.matched_now(cur) or self.accepts_at_end(cur):
                return True
            for a in range(self.sys.nat):
                T = self.step(cur, a, True)
                if T and T not in seen:
                    seen.add(T)
                    dq.append(T)
                    if len(seen) > cap:
                        raise Unsupported('state space too large in satisfiable()')
        return False

    # ---- eps-free multigraph for ambiguity ----------------------------------------------------------
    def out_edges(self, cfg):
        q, obs, last = cfg
        out = []
        if q == self.final:
            return out
        tl = self.sys.track_last
        for ei, (cs, r) in enumerate(self.nfa.sym[q]):
            for a in self.sys.label(cs):
                obs2 = self.advance(obs, a)
                if obs2 is None:
                    continue
                nl = (a if tl else None) if a != self.sys.EOF else last
                for tgt, mult in self.closure(r, obs2, nl).items():
                    out.append((a, tgt, mult, ei))
        return out

    def explore(self, cap=200000):
        self.sys.freeze()
        start_cfgs = {}
        for last in self.initial_lasts():
            for c, m in self.closure(self.start, frozenset(), last).items():
                start_cfgs[c] = min(2, start_cfgs.get(c, 0) + m)
        cfgs = {}
        todo = list(start_cfgs)
        while todo:
            c = todo.pop()
            if c in cfgs:
                continue
            edges = self.out_edges(c)
            cfgs[c] = edges
            if len(cfgs) > cap:
                raise Unsupported('configuration space too large')
            for a, tgt, mult, ei in edges:
                if tgt not in cfgs:
                    todo.append(tgt)
        self.start_cfgs = start_cfgs
        self.cfgs = cfgs
        return cfgs

    def find_eda(self):
        """Exponential degree of ambiguity: a configuration p and a word w with two distinct paths p ~w~> p.
        Returns a list of findings (each with prefix/pump witness strings)."""
        cfgs = self.explore()
        by = {c: {} for c in cfgs}
        for c, edges in cfgs.items():
            for a, tgt, mult, ei in edges:
                by[c].setdefault(a, []).append((tgt, mult, ei))
        pairs = {}
        todo = [(c, c) for c in cfgs]
        while todo:
            p = todo.pop()
            if p in pairs:
                continue
            x, y = p
            succ = []
            bx, by_ = by[x], by[y]
            for a, ex in bx.items():
                ey = by_.get(a)
                if not ey:
                    continue
                for i, (tx, mx, _) in enumerate(ex):
                    for j, (ty, my, _) in enumerate(ey):
                        div = False
                        if x == y and tx == ty:
                            div = (mx >= 2) if i == j else True
                        succ.append(((tx, ty), div, a))
            pairs[p] = succ
            for t, _, _ in succ:
                if t not in pairs:
                    todo.append(t)
        comp = _scc(pairs)
        members = {}
        for p, c in comp.items():
            members.setdefault(c, []).append(p)
        findings = []
        for c, ps in members.items():
            diag = [p for p in ps if p[0] == p[1]]
            if not diag:
                continue
            internal = [(p, t, div, a) for p in ps for (t, div, a) in pairs[p] if comp[t] == c]
            if not internal:
                continue
            off = [p for p in ps if p[0] != p[1]]
            divedges = [e for e in internal if e[2]]
            if off or divedges:
                findings.append(self._witness(diag, off, divedges, internal))
        return findings

    def _witness(self, diag, off, divedges, internal):
        adj = {}
        for (p, t, d, a) in internal:
            adj.setdefault(p, []).append((t, d, a))
        start = min(diag, key=lambda p: (p[0][0], len(p[0][1])))
        pump = None
        if off:
            best = None
            for o in off[:60]:
                p1 = _bfs_path(adj, start, o)
                p2 = _bfs_path(adj, o, start)
                if p1 is not None and p2 is not None and (best is None or len(p1) + len(p2) < len(best)):
                    best = p1 + p2
            pump = best
        if pump is None and divedges:
            (p, t, d, a) = divedges[0]
            start = p
            back = _bfs_path(adj, t, p) if t != p else []
            pump = [a] + (back or [])
        pre = self._prefix_to(start[0])
        return {
            'prefix': self.sys.word(pre or []),
            'pump': self.sys.word(pump or []),
            'loop_state': start[0][0],
            'kind': 'parallel-paths' if divedges and not off else 'diverging-paths',
            'scc_size': len(diag) + len(off),
        }

    def _prefix_to(self, cfg):
        dq = deque(self.start_cfgs)
        prev = {c: None for c in self.start_cfgs}
        while dq:
            v = dq.popleft()
            if v == cfg:
                path = []
                while prev[v] is not None:
                    u, a = prev[v]
                    path.append(a)
                    v = u
                return path[::-1]
            for a, tgt, mult, ei in self.cfgs[v]:
                if tgt not in prev:
                    prev[tgt] = (v, a)
                    dq.append(tgt)
        return None

    def enumerate_words(self, max_words=64, max_atom=8):
        """All words of a finite language (None if infinite, too large, or an atom is too wide)."""
        self.sys.freeze()
        if self.longest_run(frozenset()) is None:
            return None
        out = set()
        stack = [(self.init(), '')]
        while stack:
            S, w = stack.pop()
            if self.accepts_at_end(S):
                out.add(w)
                if len(out) > max_words:
                    return None
            for a in range(self.sys.nat):
                T = self.step(S, a)
                if T:
                    at = self.sys.atoms[a]
                    if at.size() > max_atom:
                        return None
                    for lo, hi in at.iv:
                        for c in range(lo, hi):
                            stack.append((T, w + chr(c)))
        return out

    # ---- longest word (None = unbounded) over a set of atoms (e.g. digits) --------------------------------
    def longest_run(self, atoms_of_interest: frozenset, cap=200000):
        """Longest accepted word; returns None if the language is infinite (a productive cycle exists)."""
        self.sys.freeze()
        start = self.init()
        graph = {}
        todo = [start]
        while todo:
            S = todo.pop()
            if S in graph:
                continue
            succ = {}
            for a in range(self.sys.nat):
                T = self.step(S, a)
                if T:
                    succ[a] = T
            graph[S] = succ
            if len(graph) > cap:
                raise Unsupported('state space too large in longest_run()')
            todo.extend(t for t in succ.values() if t not in graph)
        # productive states: can reach acceptance
        acc = {S for S in graph if self.accepts_at_end(S)}
        rev = {}
        for S, succ in graph.items():
            for T in succ.values():
                rev.setdefault(T, set()).add(S)
        prod = set(acc)
        dq = deque(acc)
        while dq:
            T = dq.popleft()
            for S in rev.get(T, ()):
                if S not in prod:
                    prod.add(S)
                    dq.append(S)
        if start not in prod:
            return 0
        # longest path in the productive sub-graph; cycle => unbounded
        memo = {}
        onstack = set()

        def longest(S):
            if S in memo:
                return memo[S]
            if S in onstack:
                raise _Cycle()
            onstack.add(S)
            best = 0 if S in acc else -1
            for a, T in graph[S].items():
                if T in prod:
                    best = max(best, 1 + longest(T))
            onstack.discard(S)
            memo[S] = best
            return best
        import sys as _sys
        old = _sys.getrecursionlimit()
        _sys.setrecursionlimit(max(old, 100000))
        try:
            return longest(start)
        except _Cycle:
            return None
        finally:
            _sys.setrecursionlimit(old)


class _Cycle(Exception):
    pass


def _scc(graph):
    index, low, comp = {}, {}, {}
    onst = set()
    stack = []
    counter = 0
    ncomp = 0
    for root in graph:
        if root in index:
            continue
        work = [(root, iter(graph[root]))]
        index[root] = low[root] = counter
        counter += 1
        stack.append(root)
        onst.add(root)
        while work:
            v, it = work[-1]
            adv = False
            for (w, _, _) in it:
                if w not in index:
                    index[w] = low[w] = counter
                    counter += 1
                    stack.append(w)
                    onst.add(w)
                    work.append((w, iter(graph[w])))
                    adv = True
                    break
                elif w in onst:
                    low[v] = min(low[v], index[w])
            if adv:
                continue
            work.pop()
            if work:
                u = work[-1][0]
                low[u] = min(low[u], low[v])
            if low[v] == index[v]:
                while True:
                    w = stack.pop()
                    onst.discard(w)
                    comp[w] = ncomp
                    if w == v:
                        break
                ncomp += 1
    return comp


def _bfs_path(adj, src, dst):
    if src == dst:
        return []
    dq = deque([src])
    prev = {src: None}
    while dq:
        v = dq.popleft()
        for (t, d, a) in adj.get(v, []):
            if t not in prev:
                prev[t] = (v, a)
                if t == dst:
                    path = []
                    while prev[t] is not None:
                        u, a2 = prev[t]
                        path.append(a2)
                        t = u
                    return path[::-1]
                dq.append(t)
    return None


# ------------------------------------------------------------------------------------------ language queries
def included(A: Aut, B: Aut, drop_first: int = 0, drop_last: int = 0, max_states: int = 300000):
    """L(A) quotiented by `drop_first` leading / `drop_last` trailing symbols is a subset of L(B) (full match).
    Returns None, or a counter-example string."""
    A.sys.freeze()
    sysm = A.sys
    SA = A.init()
    firsts = [SA]
    for _ in range(drop_first):
        nxt = set()
        for S in firsts:
            for a in range(sysm.nat):
                T = A.step(S, a)
                if T:
                    nxt.add(T)
        firsts = list(nxt)
    start_b = B.init()
    seen = {}
    dq = deque()
    for S in firsts:
        k = (S, start_b)
        if k not in seen:
            seen[k] = None
            dq.append(k)

    def a_accepts(S):
        if drop_last == 0:
            return A.accepts_at_end(S)
        cur = [S]
        for _ in range(drop_last):
            nxt = []
            for X in cur:
                for a in range(sysm.nat):
                    T = A.step(X, a)
                    if T:
                        nxt.append(T)
            cur = nxt
        return any(A.accepts_at_end(X) for X in cur)
    while dq:
        cur = dq.popleft()
        SA, SB = cur
        if a_accepts(SA) and not (SB and B.accepts_at_end(SB)):
            w = []
            while seen[cur] is not None:
                cur, a = seen[cur]
                w.append(a)
            return sysm.word(reversed(w))
        for a in range(sysm.nat):
            TA = A.step(SA, a)
            if not TA:
                continue
            TB = B.step(SB, a) if SB else SB
            nxt = (TA, TB)
            if nxt not in seen:
                seen[nxt] = (cur, a)
                dq.append(nxt)
                if len(seen) > max_states:
                    raise Unsupported('product too large in included()')
    return None


def equivalent(A: Aut, B: Aut):
    """None if L(A) == L(B) (full match), else ('A-not-in-B'|'B-not-in-A', witness)."""
    w = included(A, B)
    if w is not None:
        return ('only-in-first', w)
    w = included(B, A)
    if w is not None:
        return ('only-in-second', w)
    return None


def prefix_intersect(A: Aut, B: Aut, max_states: int = 300000):
    """Is there an input on which both A and B match (each some prefix) from the same position?
    Returns a witness string or None."""
    A.sys.freeze()
    sysm = A.sys
    start = (A.init(), B.init())
    seen = {start: None}
    dq = deque([start])

    def done(M, S):
        return M.matched_now(S) or M.accepts_at_end(S)
    while dq:
        cur = dq.popleft()
        SA, SB = cur
        if done(A, SA) and done(B, SB):
            w = []
            while seen[cur] is not None:
                cur, a = seen[cur]
                w.append(a)
            return sysm.word(reversed(w))
        for a in range(sysm.nat):
            TA = A.step(SA, a, True)
            TB = B.step(SB, a, True)
            if not TA or not TB:
                continue
            nxt = (TA, TB)
            if nxt not in seen:
                seen[nxt] = (cur, a)
                dq.append(nxt)
                if len(seen) > max_states:
                    raise Unsupported('product too large in prefix_intersect()')
    return None


def analyse_eda(pattern: str, flags: int = 0, mid_start: bool = False):
    s = System()
    a = s.add('r', pattern, flags, mid_start=mid_start)
    s.freeze()
    f = a.find_eda()
    return s, a, f


def parse(pattern: str, flags: int = 0):
    """(items, effective flags, groupdict) of a pattern."""
    tree = sp.parse(pattern, flags)
    return tree, tree.state.flags, dict(tree.state.groupdict)


def branch_alternatives(seq, gid):
    """If group `gid` consists of a single BRANCH, return one rewritten copy of `seq` per alternative (the group
    restricted to that alternative); else None."""
    found = find_group(seq, gid)
    if found is None:
        return None
    sub, _ = found
    items = list(sub)
    if len(items) != 1 or items[0][0] is not sc.BRANCH:
        return None
    alts = items[0][1][1]

    def rewrite(s, alt):
        out = []
        for op, av in s:
            if op is sc.SUBPATTERN:
                g, add, dele, inner = av
                if g == gid:
                    out.append((op, (g, add, dele, list(alt))))
                else:
                    out.append((op, (g, add, dele, rewrite(inner, alt))))
            elif op is sc.BRANCH:
                out.append((op, (av[0], [rewrite(a, alt) for a in av[1]])))
            elif op in (sc.MAX_REPEAT, sc.MIN_REPEAT, getattr(sc, 'POSSESSIVE_REPEAT', None)):
                out.append((op, (av[0], av[1], rewrite(av[2], alt))))
            elif op in (sc.ASSERT, sc.ASSERT_NOT):
                out.append((op, (av[0], rewrite(av[1], alt))))
            elif op is getattr(sc, 'ATOMIC_GROUP', None):
                out.append((op, rewrite(av, alt)))
            else:
                out.append((op, av))
        return out
    return [rewrite(seq, a) for a in alts]
