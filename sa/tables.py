"""Decision tables extracted by partial evaluation (sa.interp) - shared by several rule packs.

Every function here interprets package functions from their ASTs on abstract inputs with recording stubs and returns
plain data (tables); the rule packs compare the tables with what the property prescribes.
"""
from __future__ import annotations

import ast
import itertools

from .core import AnalysisError
from .interp import Interp, Obj, Raised, call_function
from .miniev import Unsupported


def match_obj(groups: dict, name='m', start=0, end=1):
    """A stand-in for a regex match object with the given named groups."""
    def group(*gs):
        def one(g):
            if g == 0:
                return groups.get(0, '')
            if g not in groups:
                raise Raised('IndexError')
            return groups[g]
        if not gs:
            return one(0)
        return one(gs[0]) if len(gs) == 1 else tuple(one(g) for g in gs)
    named = lambda default=None: {k: (v if v is not None else default) for k, v in groups.items() if isinstance(k, str)}      # noqa: E731
    return Obj(_name=name, group=group, groupdict=named, groups=lambda default=None: tuple(named(default).values()),
               start=lambda i=0: start, end=lambda i=0: end, span=lambda i=0: (start, end))


def new_selector(ctx):
    return call_function(ctx, 'css_parser._Selector.__init__', [], {}, None) if False else None


def fresh_sel():
    return Obj(_cls='css_parser._Selector', _name='_Selector', tag=None, ids=[], classes=[], attributes=[], nth=[], selectors=[],
               relations=[], rel_type=None, contains=[], lang=[], flags=0, no_match=False)


def parser_obj(pattern='x', flags=0, custom=None):
    return Obj(_cls='css_parser.CSSParser', _name='parser', pattern=pattern, flags=flags, debug=0,
               custom={} if custom is None else custom)


# ---- parse_selectors on token sequences -------------------------------------------------------------------------------
def run_parse_selectors(ctx, tokens, flags=0, handler_stubs=None):
    """Interpret CSSParser.parse_selectors on a sequence of (key, match-stand-in) tokens.
    Returns the resulting SelectorList stand-in (Obj) or raises Raised / Unsupported."""
    it = iter(list(tokens))

    def nxt(x):
        try:
            return next(x)
        except StopIteration:
            raise Raised('StopIteration')
    stubs = {'next': nxt, 'css_parser._Selector': lambda **kw: _sel_with(kw)}
    stubs.update(handler_stubs or {})
    return call_function(ctx, 'css_parser.CSSParser.parse_selectors', [it, 0, flags], {}, stubs, parser_obj())


def _sel_with(kw):
    s = fresh_sel()
    for k, v in kw.items():
        s.set(k, v)
    return s


def describe_selector(s, depth=0):
    """Plain-data image of a frozen Selector / SelectorNull / SelectorList stand-in."""
    if s is None:
        return None
    cq = object.__getattribute__(s, '_cls') if isinstance(s, Obj) else None
    if cq == 'css_types.SelectorNull':
        return 'NULL'
    if cq == 'css_types.SelectorList':
        return {'list': [describe_selector(x, depth + 1) for x in s.get('selectors')], 'is_not': s.get('is_not'),
                'is_html': s.get('is_html')}
    if cq == 'css_types.Selector':
        tag = s.get('tag')
        return {'tag': None if tag is None else (tag.get('name'), tag.get('prefix')),
                'classes': list(s.get('classes')), 'ids': list(s.get('ids')),
                'rel_type': s.get('rel_type'), 'relation': describe_selector(s.get('relation'), depth + 1),
                'flags': s.get('flags'), 'selectors': [describe_selector(x, depth + 1) for x in s.get('selectors')]}
    return repr(s)


def tok(key, whole=None, **groups):
    g = dict(groups)
    if whole is not None:
        g[0] = whole
    return (key, match_obj(g, name=key))


# ---- abstract document model for the matcher-side tables ------------------------------------------------------------
class NSKey(str):
    """Stand-in for bs4's NamespacedAttribute: a str that also carries .namespace and .name (the local name)."""
    def __new__(cls, text, namespace=None, name=None):
        o = super().__new__(cls, text)
        o.namespace = namespace
        o.name = name
        return o


def el_obj(name='el', prefix=None, namespace=None, attrs=None, is_xml=False, label=None, parent=None, **extra):
    """An element: the fields the accessors of _DocumentNav read (name, prefix, namespace, attrs, _is_xml, parent)."""
    return Obj(_cls=None, _name=label or f'<{name}>', name=name, prefix=prefix, namespace=namespace,
               attrs=dict(attrs or {}), _is_xml=is_xml, parent=parent, __isa__=('bs4.Tag',), **extra)


def matcher_obj(is_xml=False, is_html=True, namespaces=None, has_html_namespace=False, **extra):
    f = dict(is_xml=is_xml, is_html=is_html, namespaces={} if namespaces is None else namespaces,
             has_html_namespace=has_html_namespace, iframe_restrict=False)
    f.update(extra)
    return Obj(_cls='css_match.CSSMatch', _name='matcher', **f)


# ---- abstract bs4 trees (navigation attributes as bs4 maintains them; the transcription is part of the trusted base) ----------
class TextNode(str):
    """A string node of the tree: text, comment, CDATA, processing instruction, declaration or doctype."""
    _is_abstract_node = True
    KINDS = {'text': ('bs4.NavigableString', 'bs4.element.NavigableString'),
             'comment': ('bs4.NavigableString', 'bs4.PreformattedString', 'bs4.Comment'),
             'cdata': ('bs4.NavigableString', 'bs4.PreformattedString', 'bs4.CData'),
             'pi': ('bs4.NavigableString', 'bs4.PreformattedString', 'bs4.ProcessingInstruction'),
             'declaration': ('bs4.NavigableString', 'bs4.PreformattedString', 'bs4.Declaration'),
             'doctype': ('bs4.NavigableString', 'bs4.PreformattedString', 'bs4.Doctype')}

    def __new__(cls, text, kind='text'):
        o = super().__new__(cls, text)
        o.kind = kind
        o.__isa__ = cls.KINDS[kind] + tuple(k.replace('bs4.', 'bs4.element.') for k in cls.KINDS[kind])
        o.parent = o.next_sibling = o.previous_sibling = o.next_element = o.previous_element = None
        o.name = None
        return o

    def __repr__(self):
        return f'<{self.kind} {str.__repr__(self)}>'

    def __hash__(self):
        return id(self)

    def __eq__(self, other):           # bs4 strings compare by value; identity is what the matcher needs to tell nodes apart
        return str.__eq__(self, other) if isinstance(other, str) else NotImplemented

    def __ne__(self, other):
        r = self.__eq__(other)
        return r if r is NotImplemented else not r


def build_tree(spec, is_xml=False, namespace=None):
    """spec: ('name', {attrs}, [children]) | 'text' | ('#comment', 'text') ... Returns (document object, nodes in document
    order, dict label -> node) with parent / contents / siblings / next_element / descendants linked as bs4 does.
    An element may carry the pseudo-attribute '_label' (to find it again) and '_ns' (its namespace)."""
    labels = {}
    order = []

    def make(s, parent):
        if isinstance(s, str):
            n = TextNode(s)
        elif s[0].startswith('#'):
            n = TextNode(s[1], s[0][1:])
        else:
            name, attrs, kids = s
            attrs = dict(attrs)
            label = attrs.pop('_label', None)
            ns = attrs.pop('_ns', namespace)
            n = el_obj(name, namespace=ns, attrs=attrs, is_xml=is_xml, label=f'<{label or name}>')
            if label:
                labels[label] = n
            n.set('__eq_key__', None)
        if isinstance(n, TextNode):
            n.parent = parent
        else:
            n.set('parent', parent)
        order.append(n)
        if not isinstance(n, TextNode):
            children = [make(k, n) for k in s[2]]
            n.set('contents', children)
            n.set('__iter__', children)
            n.set('__len__', len(children))
            n.set('children', children)
        return n
    doc = el_obj('[document]', is_xml=is_xml, label='BeautifulSoup')
    doc.set('__isa__', ('bs4.Tag', 'bs4.BeautifulSoup', 'bs4.element.Tag'))
    doc.set('is_xml', is_xml)
    tops = [make(s, doc) for s in spec]
    doc.set('contents', tops)
    doc.set('__iter__', tops)
    doc.set('__len__', len(tops))
    doc.set('children', tops)
    allnodes = [doc] + order

    def setn(n, k, v):
        if isinstance(n, TextNode):
            setattr(n, k, v)
        else:
            n.set(k, v)

    def kids(n):
        return [] if isinstance(n, TextNode) else n.get('contents')
    for n in allnodes:
        cs = kids(n)
        for i, c in enumerate(cs):
            setn(c, 'previous_sibling', cs[i - 1] if i else None)
            setn(c, 'next_sibling', cs[i + 1] if i + 1 < len(cs) else None)
    setn(doc, 'previous_sibling', None)
    setn(doc, 'next_sibling', None)
    for i, n in enumerate(allnodes):
        setn(n, 'previous_element', allnodes[i - 1] if i else None)
        setn(n, 'next_element', allnodes[i + 1] if i + 1 < len(allnodes) else None)

    def desc(n):
        out = []
        for c in kids(n):
            out.append(c)
            out.extend(desc(c))
        return out
    for n in allnodes:
        if not isinstance(n, TextNode):
            d = desc(n)
            n.set('descendants', d)
            def text_of(x):
                return ''.join(t for t in desc(x) if isinstance(t, TextNode) and t.kind in ('text', 'cdata'))
            n.set('__eq_key__', None)
    # structural equality of tags (bs4 compares name, attributes and contents)
    def key(n):
        if isinstance(n, TextNode):
            return ('s', str(n))
        return ('t', n.get('name'), tuple(sorted((str(k), str(v)) for k, v in n.get('attrs').items())), tuple(key(c) for c in kids(n)))
    for n in allnodes:
        if not isinstance(n, TextNode):
            n.set('__eq_key__', key(n))
    return doc, order, labels
