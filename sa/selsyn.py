"""E8: an independent, small parser and evaluator for the *selector constants* embedded in css_parser.py
(CSS_LINK ... CSS_OUT_OF_RANGE) over abstract element trees.  It shares no code with soupsieve; it is used to compare
those declarative definitions with each other and with reference predicates on a finite universe of abstract trees.

Supported: `ns|type`, `*`, `[attr]`, `[attr=val]` (quotes optional, i flag), `[attr~=val]`, `:is() :not() :where()`,
`:nth-of-type(n)`, `:nth-child(n)`, `:first-child`, `:last-child`, `:root`, named references to other definitions
(`:checked`, `:disabled`, `:read-write` ...), `>` and descendant combinators, `+`/`~`, comma lists, comments.
"""
from __future__ import annotations

import re
from dataclasses import dataclass, field


class SelSynError(Exception):
    pass


@dataclass
class Node:
    tag: str
    attrs: dict = field(default_factory=dict)
    children: list = field(default_factory=list)
    parent: 'Node | None' = None
    ns: str = 'html'

    def add(self, *kids):
        for k in kids:
            k.parent = self
            self.children.append(k)
        return self

    def walk(self):
        yield self
        for c in self.children:
            yield from c.walk()

    def path(self):
        out, n = [], self
        while n is not None:
            a = ''.join(f'[{k}={v!r}]' if v is not True else f'[{k}]' for k, v in sorted(n.attrs.items()))
            out.append(n.tag + a)
            n = n.parent
        return ' < '.join(out)


@dataclass
class Compound:
    ns: str | None = None          # None: any, '': none given... we only need 'html' / '*' / None
    tag: str | None = None
    attrs: list = field(default_factory=list)     # (name, op, value, flag)
    pseudos: list = field(default_factory=list)   # (name, arg)  arg: list[Complex] | int | None


class Parser:
    def __init__(self, text: str):
        text = re.sub(r'/\*.*?\*/', ' ', text, flags=re.S)
        self.s = text.strip()
        self.i = 0

    def ws(self):
        while self.i < len(self.s) and self.s[self.i] in ' \t\r\n\f':
            self.i += 1

    def peek(self):
        return self.s[self.i] if self.i < len(self.s) else ''

    def ident(self):
        m = re.compile(r'-?[A-Za-z_][A-Za-z0-9_-]*').match(self.s, self.i)
        if not m:
            raise SelSynError(f'identifier expected at {self.i}: {self.s[self.i:self.i + 20]!r}')
        self.i = m.end()
        return m.group(0)

    def parse_list(self, closing=''):
        out = []
        while True:
            self.ws()
            out.append(self.parse_complex(closing))
            self.ws()
            if self.peek() == ',':
                self.i += 1
                continue
            break
        return out

    def parse_complex(self, closing):
        """Returns [(combinator_to_previous, Compound)] left to right; first combinator is None."""
        parts = []
        comb = None
        while True:
            self.ws()
            c = self.parse_compound()
            parts.append((comb, c))
            j = self.i
            self.ws()
            ch = self.peek()
            if ch and ch in '>+~':
                comb = ch
                self.i += 1
                continue
            if ch in (',', ')', '') or (closing and ch == closing):
                return parts
            if self.i > j:
                comb = ' '
                continue
            raise SelSynError(f'unexpected {ch!r} at {self.i}')

    def parse_compound(self):
        c = Compound()
        # type selector
        m = re.compile(r'(?:(?P<ns>[A-Za-z_][A-Za-z0-9_-]*|\*)?\|)?(?P<tag>[A-Za-z_][A-Za-z0-9_-]*|\*)').match(self.s, self.i)
        if m and self.peek() not in ':[.#':
            c.ns = m.group('ns')
            c.tag = m.group('tag')
            self.i = m.end()
        progressed = bool(m and c.tag)
        while True:
            ch = self.peek()
            if ch == '[':
                self.i += 1
                self.ws()
                name = self.ident()
                self.ws()
                op = val = flag = None
                m2 = re.compile(r'([~|^$*!]?=)').match(self.s, self.i)
                if m2:
                    op = m2.group(1)
                    self.i = m2.end()
                    self.ws()
                    if self.peek() and self.peek() in '"\'':
                        q = self.peek()
                        j = self.s.index(q, self.i + 1)
                        val = self.s[self.i + 1:j]
                        self.i = j + 1
                    else:
                        m3 = re.compile(r'[A-Za-z0-9_-]+').match(self.s, self.i)
                        if not m3:
                            raise SelSynError('attribute value expected')
                        val = m3.group(0)
                        self.i = m3.end()
                    self.ws()
                    if self.peek() and self.peek() in 'isIS' and self.s[self.i + 1:self.i + 2] in (' ', ']'):
                        flag = self.peek().lower()
                        self.i += 1
                        self.ws()
                if self.peek() != ']':
                    raise SelSynError(f'] expected at {self.i}')
                self.i += 1
                c.attrs.append((name, op, val, flag))
                progressed = True
            elif ch == ':':
                self.i += 1
                name = self.ident()
                arg = None
                if self.peek() == '(':
                    self.i += 1
                    self.ws()
                    if name in ('nth-of-type', 'nth-child', 'nth-last-child', 'nth-last-of-type'):
                        m4 = re.compile(r'\d+').match(self.s, self.i)
                        if not m4:
                            raise SelSynError('only integer nth arguments are supported')
                        arg = int(m4.group(0))
                        self.i = m4.end()
                    else:
                        arg = self.parse_list(')')
                    self.ws()
                    if self.peek() != ')':
                        raise SelSynError(f') expected at {self.i}: {self.s[self.i:self.i + 20]!r}')
                    self.i += 1
                c.pseudos.append((name, arg))
                progressed = True
            else:
                break
        if not progressed:
            raise SelSynError(f'compound selector expected at {self.i}: {self.s[self.i:self.i + 20]!r}')
        return c


def parse(text: str):
    p = Parser(text)
    out = p.parse_list()
    p.ws()
    if p.i != len(p.s):
        raise SelSynError(f'trailing text at {p.i}: {p.s[p.i:p.i + 20]!r}')
    return out


WS = ' \t\r\n\f'


class Evaluator:
    """env: name -> parsed selector list (for named references) or a python predicate(node)."""

    def __init__(self, env=None, type_insensitive=True):
        self.env = env or {}
        self.type_insensitive = type_insensitive

    def matches(self, node: Node, sel_list) -> bool:
        return any(self.match_complex(node, cx) for cx in sel_list)

    def match_complex(self, node, cx) -> bool:
        def rec(n, idx):
            comb, comp = cx[idx]
            if not self.match_compound(n, comp):
                return False
            if idx == 0:
                return True
            # combinator between cx[idx-1] and cx[idx]
            c = cx[idx][0]
            if c == '>':
                return n.parent is not None and rec(n.parent, idx - 1)
            if c == ' ':
                p = n.parent
                while p is not None:
                    if rec(p, idx - 1):
                        return True
                    p = p.parent
                return False
            sibs = n.parent.children if n.parent else [n]
            k = next(i for i, x in enumerate(sibs) if x is n)
            if c == '+':
                return k > 0 and rec(sibs[k - 1], idx - 1)
            if c == '~':
                return any(rec(s, idx - 1) for s in sibs[:k])
            raise SelSynError(f'combinator {c!r}')
        return rec(node, len(cx) - 1)

    def match_compound(self, n: Node, c: Compound) -> bool:
        if c.ns == 'html' and n.ns != 'html':
            return False
        if c.ns not in (None, '*', 'html'):
            return False
        if c.tag not in (None, '*') and c.tag.lower() != n.tag.lower():
            return False
        for name, op, val, flag in c.attrs:
            if name not in n.attrs:
                return False
            v = n.attrs[name]
            v = '' if v is True else v
            if op is None:
                continue
            a, b = v, val
            if flag == 'i' or (flag is None and name == 'type' and self.type_insensitive):
                a, b = a.lower(), b.lower()
            if op == '=':
                ok = a == b
            elif op == '!=':
                ok = a != b
            elif op == '~=':
                ok = bool(b) and not any(ch in b for ch in WS) and b in re.split(f'[{WS}]+', a)
            elif op == '^=':
                ok = bool(b) and a.startswith(b)
            elif op == '$=':
                ok = bool(b) and a.endswith(b)
            elif op == '*=':
                ok = bool(b) and b in a
            elif op == '|=':
                ok = a == b or a.startswith(b + '-')
            else:
                raise SelSynError(f'operator {op}')
            if not ok:
                return False
        for name, arg in c.pseudos:
            if name in ('is', 'where', 'matches'):
                if not self.matches(n, arg):
                    return False
            elif name == 'not':
                if self.matches(n, arg):
                    return False
            elif name in ('nth-of-type', 'first-of-type'):
                k = arg if name == 'nth-of-type' else 1
                sibs = [s for s in (n.parent.children if n.parent else [n]) if s.tag == n.tag and s.ns == n.ns]
                if sibs.index(n) + 1 != k:
                    return False
            elif name in ('nth-child', 'first-child'):
                k = arg if name == 'nth-child' else 1
                sibs = n.parent.children if n.parent else [n]
                if next(i for i, x in enumerate(sibs) if x is n) + 1 != k:
                    return False
            elif name == 'last-child':
                sibs = n.parent.children if n.parent else [n]
                if sibs[-1] is not n:
                    return False
            elif name == 'root':
                if n.parent is not None:
                    return False
            else:
                ref = self.env.get(':' + name)
                if ref is None:
                    raise SelSynError(f'unknown pseudo-class :{name}')
                ok = ref(n) if callable(ref) else self.matches(n, ref)
                if not ok:
                    return False
        return True
