"""Static analysis rule packs for soupsieve (properties C01-C20).

Nothing in this package imports or executes soupsieve; every check parses the sources under
``<root>/soupsieve`` (default root: /repo) on each run.
"""
