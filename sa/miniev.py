"""Finite-domain evaluation of small pure code fragments (abstract interpretation over an exhaustive finite domain).

Used where a function's behaviour depends on its inputs only through a finite abstraction (residues modulo a constant,
the relative order of a few values, membership in a constant table).  The evaluator interprets the *AST* of the
fragment on representatives of every abstract class; it supports assignments, if/elif/else, conditional
expressions, comparisons, boolean connectives, + - * % // & |, tuples, `in`, `is None`, `not`, and return.
Anything else raises Unsupported (the caller turns that into an ANALYSIS-ERROR)."""
from __future__ import annotations

import ast


class Unsupported(Exception):
    pass


SAFE_METHODS = {'get', 'startswith', 'endswith', 'lower', 'upper', 'strip', 'items', 'keys', 'values', 'find', 'split',
                'join', 'index', 'count', 'append', 'extend', 'translate', 'replace', 'isupper', 'islower', 'isalpha', 'isalnum', 'isalpha', 'isdigit', 'isdecimal', 'isnumeric', 'isspace', 'isascii', 'isprintable', 'isidentifier',
                'islower', 'isupper', 'translate', 'partition', 'rpartition', 'splitlines', 'count', 'index', 'rfind', 'title',
                'casefold', 'encode', 'zfill', 'ljust', 'rjust', 'center', 'removeprefix', 'removesuffix', 'format'}
SAFE_RECEIVERS = (str, dict, tuple, list, frozenset)
SAFE_BUILTINS = {'len': len, 'bool': bool, 'tuple': tuple, 'list': list, 'min': min, 'max': max, 'abs': abs, 'int': int,
                 'isinstance': isinstance, 'str': str, 'ord': ord, 'chr': chr, 'range': range, 'dict': dict,
                 'enumerate': enumerate, 'zip': zip, 'set': set, 'frozenset': frozenset, 'sorted': sorted, 'iter': iter, 'next': next,
                 'reversed': reversed, 'sum': sum, 'divmod': divmod, 'float': float, 'repr': repr, 'map': map, 'filter': filter, 'hash': hash, 'id': id, 'round': round, 'pow': pow, 'bytes': bytes, 'hex': hex, 'bin': bin}
CATCHABLE = {'KeyError': KeyError, 'IndexError': IndexError, 'ValueError': ValueError, 'TypeError': TypeError,
             'AttributeError': AttributeError, 'Exception': Exception}


class _Break(Exception):
    pass


class Spin(Exception):
    """A loop head was reached twice with an identical, fully concrete environment: the loop cannot terminate."""
    def __init__(self, node):
        self.node = node


class _Continue(Exception):
    pass


class Return(Exception):
    def __init__(self, value):
        self.value = value


class Sym:
    """An opaque symbolic value that may only flow, never be inspected."""
    def __init__(self, name):
        self.name = name

    def __repr__(self):
        return f'<{self.name}>'


class MiniEval:
    def __init__(self, env: dict, consts=None, calls: dict | None = None):
        self.env = dict(env)
        self.consts = consts          # callable(name) -> value for module-level constants (or raises KeyError)
        self.calls = calls or {}      # textual callee name -> python callable(args) for whitelisted pure calls
        self.loop_cap = 64
        self.resolver = None          # optional callable(evaluator, ast.Call) -> value | NotImplemented

    # ---- expressions ---------------------------------------------------------------------------------
    def ev(self, e: ast.AST):
        if isinstance(e, ast.Constant):
            return e.value
        if isinstance(e, ast.Name):
            if e.id in self.env:
                return self.env[e.id]
            if self.consts is not None:
                try:
                    return self.consts(e.id)
                except KeyError:
                    pass
            raise Unsupported(f'unbound name {e.id}')
        if isinstance(e, ast.Attribute):
            if self.consts is not None:
                try:
                    return self.consts(ast.unparse(e))
                except KeyError:
                    pass
            raise Unsupported(f'attribute {ast.unparse(e)}')
        if isinstance(e, ast.Tuple):
            return tuple(self.ev(x) for x in e.elts)
        if isinstance(e, ast.List):
            return [self.ev(x) for x in e.elts]
        if isinstance(e, ast.UnaryOp):
            v = self.ev(e.operand)
            if isinstance(e.op, ast.Not):
                return not self.truth(v)
            if isinstance(e.op, ast.USub):
                return -v
            if isinstance(e.op, ast.UAdd) and isinstance(v, (int, float)):
                return +v
            if isinstance(e.op, ast.Invert) and isinstance(v, int):
                return ~int(v)
            raise Unsupported('unary operator')
        if isinstance(e, ast.BoolOp):
            if isinstance(e.op, ast.And):
                v = True
                for x in e.values:
                    v = self.ev(x)
                    if not self.truth(v):
                        return v
                return v
            v = False
            for x in e.values:
                v = self.ev(x)
                if self.truth(v):
                    return v
            return v
        if isinstance(e, ast.IfExp):
            return self.ev(e.body) if self.truth(self.ev(e.test)) else self.ev(e.orelse)
        if isinstance(e, ast.Compare):
            left = self.ev(e.left)
            for op, r in zip(e.ops, e.comparators):
                right = self.ev(r)
                if not self.cmp(op, left, right):
                    return False
                left = right
            return True
        if isinstance(e, ast.BinOp):
            a, b = self.ev(e.left), self.ev(e.right)
            if isinstance(a, Sym) or isinstance(b, Sym):
                raise Unsupported('arithmetic on an opaque value')
            ops = {ast.Add: lambda: a + b, ast.Sub: lambda: a - b, ast.Mult: lambda: a * b, ast.Mod: lambda: a % b,
                   ast.FloorDiv: lambda: a // b, ast.BitAnd: lambda: a & b, ast.BitOr: lambda: a | b}
            f = ops.get(type(e.op))
            if f is None:
                raise Unsupported(f'operator {type(e.op).__name__}')
            return f()
        if isinstance(e, ast.Call):
            name = ast.unparse(e.func)
            if name in self.calls:
                kw = {k.arg: self.ev(k.value) for k in e.keywords if k.arg}
                return self.calls[name](*[self.ev(a) for a in e.args], **kw)
            if self.resolver is not None:
                r = self.resolver(self, e)
                if r is not NotImplemented:
                    return r
            if isinstance(e.func, ast.Attribute) and e.func.attr in SAFE_METHODS:
                recv = self.ev(e.func.value)
                if isinstance(recv, SAFE_RECEIVERS):
                    return getattr(recv, e.func.attr)(*[self.ev(a) for a in e.args])
            if isinstance(e.func, ast.Name) and e.func.id in SAFE_BUILTINS:
                return SAFE_BUILTINS[e.func.id](*[self.ev(a) for a in e.args])
            raise Unsupported(f'call {name}')
        if isinstance(e, ast.Subscript):
            v = self.ev(e.value)
            if isinstance(e.slice, ast.Slice):
                lo = self.ev(e.slice.lower) if e.slice.lower is not None else None
                hi = self.ev(e.slice.upper) if e.slice.upper is not None else None
                return v[lo:hi]
            i = self.ev(e.slice)
            if isinstance(v, Sym):
                raise Unsupported('subscript of an opaque value')
            return v[i]
        if isinstance(e, (ast.ListComp, ast.GeneratorExp, ast.SetComp, ast.DictComp)):
            return self.comp(e)
        if isinstance(e, ast.Dict):
            return {self.ev(k): self.ev(v) for k, v in zip(e.keys, e.values)}
        if isinstance(e, ast.Set):
            return {self.ev(x) for x in e.elts}
        if isinstance(e, ast.JoinedStr):
            out = []
            for v in e.values:
                if isinstance(v, ast.Constant):
                    out.append(v.value)
                else:
                    raise Unsupported('f-string with interpolation')
            return ''.join(out)
        raise Unsupported(type(e).__name__)

    def comp(self, e):
        results = []
        saved = dict(self.env)

        def rec(i):
            if i == len(e.generators):
                if isinstance(e, ast.DictComp):
                    results.append((self.ev(e.key), self.ev(e.value)))
                else:
                    results.append(self.ev(e.elt))
                return
            g = e.generators[i]
            for item in self.iterate(self.ev(g.iter)):
                self.assign(g.target, item)
                if all(self.truth(self.ev(c)) for c in g.ifs):
                    rec(i + 1)
        rec(0)
        self.env = saved
        if isinstance(e, ast.DictComp):
            return dict(results)
        if isinstance(e, ast.SetComp):
            return set(results)
        return results

    def iterate(self, v):
        """The items a `for` statement / comprehension draws from v."""
        return list(v)

    def truth(self, v):
        if isinstance(v, Sym):
            raise Unsupported(f'truth value of opaque {v}')
        return bool(v)

    def cmp(self, op, a, b):
        if isinstance(op, ast.Is):
            return a is b
        if isinstance(op, ast.IsNot):
            return a is not b
        if isinstance(a, Sym) or isinstance(b, Sym):
            raise Unsupported('comparison of an opaque value')
        if isinstance(op, ast.Eq):
            return a == b
        if isinstance(op, ast.NotEq):
            return a != b
        if isinstance(op, ast.Lt):
            return a < b
        if isinstance(op, ast.LtE):
            return a <= b
        if isinstance(op, ast.Gt):
            return a > b
        if isinstance(op, ast.GtE):
            return a >= b
        if isinstance(op, ast.In):
            return a in b
        if isinstance(op, ast.NotIn):
            return a not in b
        raise Unsupported('comparison operator')

    # ---- statements ------------------------------------------------------------------------------------
    def run(self, stmts):
        """Execute statements; returns the value of the first `return` reached (or None)."""
        try:
            self.block(stmts)
        except Return as r:
            return r.value
        return None

    def block(self, stmts):
        for st in stmts:
            self.stmt(st)

    def stmt(self, st):
        if isinstance(st, ast.Expr) and isinstance(st.value, ast.Constant):
            return      # docstring
        if isinstance(st, ast.Assign):
            v = self.ev(st.value)
            for t in st.targets:
                self.assign(t, v)
            return
        if isinstance(st, ast.AnnAssign):
            if st.value is not None:
                self.assign(st.target, self.ev(st.value))
            return
        if isinstance(st, ast.AugAssign):
            cur = self.ev(st.target)
            v = self.ev(ast.BinOp(left=ast.Constant(cur), op=st.op, right=ast.Constant(self.ev(st.value))))
            self.assign(st.target, v)
            return
        if isinstance(st, ast.If):
            if self.truth(self.ev(st.test)):
                self.block(st.body)
            else:
                self.block(st.orelse)
            return
        if isinstance(st, ast.Return):
            raise Return(self.ev(st.value) if st.value is not None else None)
        if isinstance(st, ast.For):
            broke = False
            for item in self.iterate(self.ev(st.iter)):
                self.assign(st.target, item)
                try:
                    self.block(st.body)
                except _Continue:
                    continue
                except _Break:
                    broke = True
                    break
            if not broke:
                self.block(st.orelse)
            return
        if isinstance(st, ast.While):
            n = 0
            broke = False
            seen_envs = set()
            while self.truth(self.ev(st.test)):
                n += 1
                snap = self.snapshot()
                if snap is not None:
                    if snap in seen_envs:
                        raise Spin(st)
                    seen_envs.add(snap)
                if n > self.loop_cap:
                    raise Unsupported(f'loop bound exceeded (line {st.lineno})')
                try:
                    self.block(st.body)
                except _Continue:
                    continue
                except _Break:
                    broke = True
                    break
            if not broke:
                self.block(st.orelse)
            return
        if isinstance(st, ast.Try):
            try:
                self.block(st.body)
            except (Return, _Break, _Continue, Unsupported):
                raise
            except Exception as exc:  # noqa: BLE001 - exceptions of the interpreted fragment
                for h in st.handlers:
                    names = []
                    if h.type is None:
                        names = ['Exception']
                    elif isinstance(h.type, ast.Tuple):
                        names = [ast.unparse(x) for x in h.type.elts]
                    else:
                        names = [ast.unparse(h.type)]
                    if any(n in CATCHABLE and isinstance(exc, CATCHABLE[n]) for n in names):
                        self.block(h.body)
                        break
                else:
                    raise
            else:
                self.block(st.orelse)
            finally:
                pass
            self.block(st.finalbody)
            return
        if isinstance(st, ast.Break):
            raise _Break()
        if isinstance(st, ast.Continue):
            raise _Continue()
        if isinstance(st, ast.Expr):
            self.ev(st.value)
            return
        if isinstance(st, ast.Pass):
            return
        if isinstance(st, (ast.FunctionDef,)):
            self.env[st.name] = Sym('function ' + st.name)
            return
        raise Unsupported(f'statement {type(st).__name__}')

    def snapshot(self):
        """Hashable image of the environment if every value is concrete (None / bool / int / str / tuples of those)."""
        items = []
        for k, v in sorted(self.env.items()):
            if isinstance(v, Sym):
                items.append((k, ('sym', v.name)))
            elif v is None or isinstance(v, (bool, int, str)):
                items.append((k, v))
            elif isinstance(v, tuple) and all(x is None or isinstance(x, (bool, int, str)) for x in v):
                items.append((k, v))
            else:
                return None
        return tuple(items)

    def assign(self, t, v):
        if isinstance(t, ast.Name):
            self.env[t.id] = v
        elif isinstance(t, ast.Tuple):
            for x, y in zip(t.elts, v):
                self.assign(x, y)
        else:
            raise Unsupported('assignment target')


# ---- intervals ----------------------------------------------------------------------------------------------
NEG_INF, POS_INF = float('-inf'), float('inf')


def interval(e: ast.AST, env: dict, const=None):
    """Interval [lo, hi] of an integer expression given intervals of names in env; None if unknown."""
    if isinstance(e, ast.Constant) and isinstance(e.value, int) and not isinstance(e.value, bool):
        return (e.value, e.value)
    if isinstance(e, ast.Name):
        if e.id in env:
            return env[e.id]
        if const is not None:
            v = const(e)
            if isinstance(v, int) and not isinstance(v, bool):
                return (v, v)
        return None
    if isinstance(e, ast.BinOp):
        a, b = interval(e.left, env, const), interval(e.right, env, const)
        if isinstance(e.op, ast.Mod):
            if b is not None and b[0] == b[1] and b[0] > 0:
                return (0, b[0] - 1)
            return None
        if a is None or b is None:
            return None
        if isinstance(e.op, ast.Add):
            return (a[0] + b[0], a[1] + b[1])
        if isinstance(e.op, ast.Sub):
            return (a[0] - b[1], a[1] - b[0])
        if isinstance(e.op, ast.Mult):
            c = [x * y for x in a for y in b if x not in (NEG_INF, POS_INF) and y not in (NEG_INF, POS_INF)]
            if len(c) == 4:
                return (min(c), max(c))
            return None
        return None
    if isinstance(e, ast.Call) and isinstance(e.func, ast.Name) and e.func.id in ('min', 'max') and len(e.args) == 2:
        a, b = interval(e.args[0], env, const), interval(e.args[1], env, const)
        if e.func.id == 'min':
            hi = min(x[1] for x in (a, b) if x is not None) if (a or b) else None
            lo = min(a[0], b[0]) if a and b else NEG_INF
            return None if hi is None else (lo, hi)
        lo = max(x[0] for x in (a, b) if x is not None) if (a or b) else None
        hi = max(a[1], b[1]) if a and b else POS_INF
        return None if lo is None else (lo, hi)
    return None


def param_intervals(src, mod, fn, const_of):
    """Intervals of the integer parameters of `fn`, from the arguments at every call site of the package (a function that is
    called by name with `year % 400` only ever sees 0..399).  const_of(module name) gives the constant evaluator of a module.
    A parameter is left out when a call site passes something whose interval is unknown, or when the function is never called
    by name (it may be called through a table)."""
    name = fn.name
    params = [a.arg for a in fn.args.posonlyargs + fn.args.args]
    is_method = bool(params) and params[0] in ('self', 'cls')
    sites = []
    for mn, m2 in src.mods.items():
        for x in ast.walk(m2.tree):
            if isinstance(x, ast.Call):
                f = x.func
                last = f.attr if isinstance(f, ast.Attribute) else (f.id if isinstance(f, ast.Name) else None)
                if last == name:
                    sites.append((mn, x))
            elif isinstance(x, ast.Name) and x.id == name and isinstance(x.ctx, ast.Load) and not isinstance(getattr(x, 'parent', None), ast.Call):
                pass
    # the function used as a value somewhere (handed to map(), kept in a table): arguments unknown
    for mn, m2 in src.mods.items():
        for x in ast.walk(m2.tree):
            if isinstance(x, (ast.Name, ast.Attribute)) and (getattr(x, 'id', None) == name or getattr(x, 'attr', None) == name) and isinstance(x.ctx, ast.Load):
                par = m2.parents.get(x)
                if not (isinstance(par, ast.Call) and par.func is x):
                    return {}
    if not sites:
        return {}
    out = {}
    names = params[1:] if is_method else params
    for i, pn in enumerate(names):
        lo, hi = None, None
        ok = True
        for mn, call in sites:
            arg = call.args[i] if i < len(call.args) and not any(isinstance(a, ast.Starred) for a in call.args) else next((k.value for k in call.keywords if k.arg == pn), None)
            if arg is None:
                ok = False
                break
            iv = interval(arg, {}, const_of(mn))
            if iv is None:
                ok = False
                break
            lo = iv[0] if lo is None else min(lo, iv[0])
            hi = iv[1] if hi is None else max(hi, iv[1])
        if ok and lo is not None:
            out[pn] = (lo, hi)
    return out
