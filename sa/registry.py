"""Registry of properties: what is claimed, with which technique; generates MANIFEST.json.

Run:  /venv/bin/python -m sa.registry   (rewrites /verif/MANIFEST.json)
"""
from __future__ import annotations

import json
import os

from .core import VERIF_DIR

PY = '/venv/bin/python'

TRUSTED = ("Trusted base: CPython's re._parser as the regex front end and the backtracking model of sre; ast as the "
           "program front end; mypy's inferred types where a rule uses them; purity of bs4 read accessors; "
           "functools.lru_cache locking; CPython's default 4300-digit int limit.")

from .claimapi import ALL_IDS, PROPS  # noqa: E402


def _load_claims() -> None:
    from . import claims  # noqa: F401  (fills PROPS)


def manifest() -> dict:
    _load_claims()
    checks = []
    na = []
    for pid in ALL_IDS:
        p = PROPS[pid]
        if p['claimed']:
            checks.append({
                'property_id': pid,
                'quick_cmd': f'{PY} -m sa.check {pid} --tier quick',
                'thorough_cmd': f'{PY} -m sa.check {pid} --tier thorough',
                'evidence_file': f'/verif/evidence/{pid}.json',
                'replay_cmd_template': f'{PY} -m sa.check {pid} --replay {{path}}',
                'engine': 'sa',
                'level_claimed': {'category': 'other', 'text': p['text'], 'design_ref': f'DESIGN.md section 2, {pid}'},
                'level_note': p['note'] + ' ' + TRUSTED,
                'technique': p['technique'],
            })
        else:
            na.append({'property_id': pid, 'reason': p['reason']})
    return {
        'version': 1,
        'setup_cmd': f'{PY} -m compileall -q sa',
        'hooks': {
            'guard': 'SOUPSIEVE_VERIF',
            'enable': 'none - static analysis reads the sources under /repo/soupsieve on every run; no '
                      'instrumentation is compiled into the repository',
            'baseline_off_cmd': 'cd /repo && /venv/bin/python -m pytest -ra -q -p no:cacheprovider --timeout=900 '
                                '--continue-on-collection-errors',
            'source_commits': [],
            'add_only': True,
        },
        'engines': [
            {'name': 'sa', 'path': '/verif/sa', 'serves_properties': [c['property_id'] for c in checks],
             'kind_free_text': 'repository-specific static analysis: ast program model, constant folding + regex '
                               'inventory, automata over regex source (EDA/inclusion/equivalence), per-function '
                               'CFG path rules, call graph, mypy-as-library type facts, a partial evaluator for the package source (decision '
                               'tables over finite abstract inputs; bounded tables over concrete selector texts and abstract bs4 trees)'},
        ],
        'checks': checks,
        'not_applicable': na,
        'notes': 'Every check parses /repo/soupsieve on each run; nothing imports or executes soupsieve. Exit codes: '
                 '0 pass (KNOWN-FINDING lines allowed), 1 VIOLATION, 2 ANALYSIS-ERROR (analysis could not decide; '
                 'never a silent pass).',
    }


def main() -> None:
    m = manifest()
    path = os.path.join(VERIF_DIR, 'MANIFEST.json')
    with open(path, 'w') as fh:
        json.dump(m, fh, indent=1)
        fh.write('\n')
    print(f'wrote {path}: {len(m["checks"])} checks, {len(m["not_applicable"])} not applicable')


if __name__ == '__main__':
    main()
