"""C17-R5: semantic comparison of the state pseudo-class *definitions* (selector constants) with predicates transcribed
from the HTML Standard, and of the partition laws, on a finite universe of abstract form trees.

The constants are declarative data; they are interpreted here by the independent evaluator of sa.selsyn - soupsieve is
not imported or run.  The universe is small but chosen to separate the clauses of the definitions (first legend vs first
child, direct vs deeper descendants, optgroup/option, hidden inputs, empty vs missing attribute values ...).
"""
from __future__ import annotations

import itertools

from . import selsyn
from .core import AnalysisError
from .selsyn import Node

TEXT_TYPES = [None, '', 'text', 'search', 'url', 'tel', 'email', 'password', 'number']
RW_TYPES = TEXT_TYPES + ['date', 'datetime-local', 'month', 'time', 'week']
RANGE_TYPES = ['date', 'month', 'week', 'time', 'datetime-local', 'number', 'range']
OTHER_TYPES = ['hidden', 'checkbox', 'radio', 'submit', 'button', 'color']


def el(tag, **attrs):
    a = {}
    for k, v in attrs.items():
        k = k.rstrip('_').replace('_', '-')
        if v is None or v is False:
            continue
        a[k] = v
    return Node(tag, a)


def universe():
    """Yield root nodes of abstract trees."""
    # flat elements under a neutral parent
    flat = []
    for t in [None] + sorted(set(TEXT_TYPES[1:] + RW_TYPES[1:] + RANGE_TYPES + OTHER_TYPES) - {None}, key=str):
        for dis, ro, req in itertools.product((False, True), repeat=3):
            flat.append(el('input', type=t, disabled=dis or None, readonly=ro or None, required=req or None))
        for chk in (False, True):
            for name in (None, '', 'g'):
                for ind in (False, True):
                    flat.append(el('input', type=t, checked=chk or None, name=name, indeterminate=ind or None))
        for ph in (None, '', 'hint'):
            for val in (None, '', 'v'):
                flat.append(el('input', type=t, placeholder=ph, value=val))
        for mn, mx in ((None, None), ('1', None), (None, '9'), ('1', '9')):
            flat.append(el('input', type=t, min=mn, max=mx))
    for tag in ('button', 'select', 'textarea', 'fieldset', 'optgroup', 'option', 'a', 'area', 'progress', 'div', 'p', 'legend',
                'span', 'form', 'link'):
        for dis, ro, req in itertools.product((False, True), repeat=3):
            flat.append(el(tag, disabled=dis or None, readonly=ro or None, required=req or None))
        for href in (None, '', '#x'):
            flat.append(el(tag, href=href))
        for ce in (None, '', 'true', 'TRUE', 'false', 'plaintext-only'):
            flat.append(el(tag, contenteditable=ce))
        for sel_, val, ph in itertools.product((None, True), (None, '', '5'), (None, '', 'hint')):
            flat.append(el(tag, selected=sel_, value=val, placeholder=ph))
        flat.append(el(tag, type='submit'))
        flat.append(el(tag, type='checkbox', checked=True))
    for chunk in range(0, len(flat), 40):
        root = Node('div')
        root.add(*flat[chunk:chunk + 40])
        yield root
    # disabled-ness structures
    controls = lambda: [el('input'), el('input', type='hidden'), el('button'), el('select'), el('textarea'), el('fieldset'),  # noqa: E731
                        el('option'), el('optgroup'), el('div'), el('a', href='#')]
    for fdis in (False, True):
        def fs():
            return el('fieldset', disabled=fdis or None)
        yield Node('form').add(fs().add(*controls()))
        yield Node('form').add(fs().add(el('legend').add(*controls())))
        yield Node('form').add(fs().add(el('p'), el('legend').add(*controls())))
        yield Node('form').add(fs().add(el('legend'), el('legend').add(*controls())))
        yield Node('form').add(fs().add(el('div').add(*controls())))
        yield Node('form').add(fs().add(el('div').add(el('legend').add(*controls()))))
        yield Node('form').add(fs().add(el('legend').add(el('div').add(*controls()))))
        yield Node('form').add(fs().add(el('legend').add(el('fieldset').add(*controls()))))
        yield Node('form').add(fs().add(el('div').add(el('fieldset').add(el('legend').add(*controls())))))
        for odis in (False, True):
            yield Node('form').add(el('select').add(el('optgroup', disabled=fdis or None).add(
                el('option', disabled=odis or None), el('option'))))
        # form default-button candidates
        yield Node('form').add(el('input', type='submit'), el('button', type='submit'), el('button'), el('input', type='text'))
    yield Node('div').add(el('input', type='submit'), el('button', type='submit'))
    # foreign-namespace twins never match html|*
    svg = Node('a', {'href': '#'}, ns='svg')
    yield Node('div').add(svg, Node('input', {'disabled': True, 'required': True, 'checked': True, 'type': 'checkbox'}, ns='svg'))


def has(n, a):
    return a in n.attrs


def typ(n):
    t = n.attrs.get('type')
    return None if t is None else ('' if t is True else t.lower())


def html(n):
    return n.ns == 'html'


def check(ctx, report, consts):
    r5 = report.rule('C17-R5', 'definitions agree with the HTML Standard on a finite universe of abstract form trees', floor=12)
    try:
        parsed = {k: selsyn.parse(v) for k, v in consts.items()}
    except selsyn.SelSynError as e:
        raise AnalysisError(f'selector constant outside the subset the independent evaluator understands: {e}')
    env = {':checked': parsed['CSS_CHECKED'], ':disabled': parsed['CSS_DISABLED'], ':read-write': parsed['CSS_READ_WRITE']}
    ev = selsyn.Evaluator(env)
    nodes = []
    for root in universe():
        nodes.extend(root.walk())
    report.analysed['abstract_elements'] = len(nodes)

    def M(name):
        return lambda n: ev.matches(n, parsed[name])
    # control list of :disabled as written in the code (first alternative), used by the reference for the ancestor rule
    first = parsed['CSS_DISABLED'][0][-1][1]
    ctl = None
    for nm, arg in first.pseudos:
        if nm == 'is':
            ctl = arg
    if ctl is None:
        raise AnalysisError('CSS_DISABLED: first alternative has no :is(...) control list')
    inheriting = {'input', 'button', 'select', 'textarea', 'fieldset'}

    def is_control(n):
        return html(n) and ev.matches(n, ctl)

    def ref_disabled(n):
        if not html(n):
            return False
        if is_control(n) and has(n, 'disabled'):
            return True
        if n.tag == 'option' and n.parent is not None and n.parent.tag == 'optgroup' and html(n.parent) and has(n.parent, 'disabled'):
            return True
        if n.tag in inheriting and is_control(n):
            child, anc = n, n.parent
            while anc is not None:
                if anc.tag == 'fieldset' and html(anc) and has(anc, 'disabled'):
                    legends = [c for c in anc.children if c.tag == 'legend' and html(c)]
                    if not (legends and child is legends[0] and child is not n):
                        return True
                    # n sits inside the first legend of this disabled fieldset: exempt from *this* fieldset
                child, anc = anc, anc.parent
        return False
    refs = {
        'CSS_DISABLED': ref_disabled,
        'CSS_ENABLED': lambda n: is_control(n) and not ref_disabled(n),
        'CSS_REQUIRED': lambda n: html(n) and n.tag in ('input', 'textarea', 'select') and has(n, 'required'),
        'CSS_OPTIONAL': lambda n: html(n) and n.tag in ('input', 'textarea', 'select') and not has(n, 'required'),
        'CSS_LINK': lambda n: html(n) and n.tag in ('a', 'area') and has(n, 'href'),
        'CSS_CHECKED': lambda n: html(n) and ((n.tag == 'input' and typ(n) in ('checkbox', 'radio') and has(n, 'checked'))
                                               or (n.tag == 'option' and has(n, 'selected'))),
        'CSS_READ_WRITE': lambda n: html(n) and (
            ((n.tag == 'textarea' or (n.tag == 'input' and typ(n) in RW_TYPES)) and not has(n, 'readonly') and not ref_disabled(n))
            or (has(n, 'contenteditable') and (n.attrs['contenteditable'] in ('', True) or str(n.attrs['contenteditable']).lower() == 'true'))),
        'CSS_IN_RANGE': lambda n: html(n) and n.tag == 'input' and typ(n) in RANGE_TYPES and (has(n, 'min') or has(n, 'max')),
        'CSS_PLACEHOLDER_SHOWN': lambda n: html(n) and has(n, 'placeholder') and n.attrs['placeholder'] not in ('', True) and (
            n.tag == 'textarea' or (n.tag == 'input' and typ(n) in TEXT_TYPES and n.attrs.get('value') in (None, '', True))),
    }
    refs['CSS_READ_ONLY'] = lambda n: html(n) and not refs['CSS_READ_WRITE'](n)
    refs['CSS_OUT_OF_RANGE'] = refs['CSS_IN_RANGE']

    def in_form(n):
        p = n.parent
        while p is not None:
            if p.tag == 'form' and html(p):
                return True
            p = p.parent
        return False
    refs['CSS_DEFAULT'] = lambda n: refs['CSS_CHECKED'](n) or (html(n) and n.tag in ('button', 'input') and typ(n) == 'submit' and in_form(n))
    refs['CSS_INDETERMINATE'] = lambda n: html(n) and (
        (n.tag == 'input' and typ(n) == 'checkbox' and has(n, 'indeterminate'))
        or (n.tag == 'input' and typ(n) == 'radio' and not has(n, 'checked'))
        or (n.tag == 'progress' and not has(n, 'value')))
    for name, ref in sorted(refs.items()):
        bad = None
        agree = 0
        try:
            for n in nodes:
                got = ev.matches(n, parsed[name])
                exp = bool(ref(n))
                if got != exp:
                    bad = (n, got, exp)
                    break
                agree += 1
        except selsyn.SelSynError as e:
            raise AnalysisError(f'{name}: {e}')
        r5.instance({'definition': name, 'abstract_elements_compared': len(nodes), 'first_disagreement': None if bad is None else bad[0].path()},
                    key=name)
        r5.obligation(bad is None)
        if bad is not None:
            n, got, exp = bad
            r5.violation(f'{name} differs from the HTML definition', 'soupsieve/css_parser.py (' + name + ')',
                         f'{name} {"matches" if got else "does not match"} the abstract element `{n.path()}` (read child < parent), the '
                         f'HTML Standard\'s definition says {"match" if exp else "no match"}')
    # partition laws, evaluated on the code's own definitions
    en, dis = M('CSS_ENABLED'), M('CSS_DISABLED')
    laws = [
        ('enabled and disabled are disjoint', lambda n: not (en(n) and dis(n))),
        ('enabled or disabled <=> form control', lambda n: (en(n) or dis(n)) == (is_control(n) or dis(n))),
        ('required xor optional <=> input/select/textarea', lambda n: (M('CSS_REQUIRED')(n) != M('CSS_OPTIONAL')(n)) == (
            html(n) and n.tag in ('input', 'select', 'textarea')) and not (M('CSS_REQUIRED')(n) and M('CSS_OPTIONAL')(n))),
        ('read-write xor read-only for every html element', lambda n: (M('CSS_READ_WRITE')(n) != M('CSS_READ_ONLY')(n)) == html(n)),
        ('checked implies default', lambda n: (not M('CSS_CHECKED')(n)) or M('CSS_DEFAULT')(n)),
    ]
    for title, pred in laws:
        bad = next((n for n in nodes if not pred(n)), None)
        r5.instance({'law': title, 'holds_on_universe': bad is None}, key=title)
        r5.obligation(bad is None)
        if bad is not None:
            r5.violation(f'law: {title}', 'soupsieve/css_parser.py (CSS_* definitions)',
                         f'the law "{title}" fails for the abstract element `{bad.path()}`')
