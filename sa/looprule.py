"""Loop rules built on the path walker.

scanner_loops(): index-driven `while` loops that tokenise a string with regex `.match(text, index)` calls.
  Rule (termination, sufficient): on every path from the loop head back to it the index has been assigned
  `m.end(...)` of a match known to be truthy on that path (and every regex that can produce the match has a
  shortest match >= 1, checked by the caller), or has been incremented by a positive constant; any other path must
  leave the loop (raise / return / break).

stuck_paths(): for any `while` loop - a path from the head back to the head on which no name occurring in the
  loop test has been (re)assigned and nothing was called on them is a guaranteed infinite loop (necessary condition).
"""
from __future__ import annotations

import ast
from dataclasses import dataclass

from .pathwalk import Domain, Walker
from .srcmodel import unparse


def names_in(expr: ast.AST) -> set[str]:
    return {n.id for n in ast.walk(expr) if isinstance(n, ast.Name)}


def assigned_names(node: ast.AST) -> set[str]:
    out = set()
    for n in ast.walk(node):
        if isinstance(n, ast.Name) and isinstance(n.ctx, (ast.Store, ast.Del)):
            out.add(n.id)
    return out


@dataclass(frozen=True)
class LState:
    progress: bool
    facts: frozenset          # (name, 'none' | 'match')

    def fact(self, name):
        for k, v in self.facts:
            if k == name:
                return v
        return None

    def with_fact(self, name, val):
        fs = frozenset((k, v) for k, v in self.facts if k != name)
        if val is not None:
            fs = fs | {(name, val)}
        return LState(self.progress, fs)


class ScanDomain(Domain):
    """Tracks: has the index made progress on this path; which match variables are known None / known truthy."""

    def __init__(self, idx: str, match_vars: set[str], tuple_vars: dict | None = None):
        self.idx = idx
        self.match_vars = match_vars
        self.tuple_vars = tuple_vars or {}       # result variable of a matching helper -> position of the match in it

    def is_state(self, x):
        return isinstance(x, LState)

    def _assign(self, state: LState, target: ast.AST, value: ast.AST | None, aug: ast.AST | None = None) -> LState:
        if isinstance(target, (ast.Tuple, ast.List)):
            src_var = value.id if isinstance(value, ast.Name) and value.id in self.tuple_vars else None
            known = src_var is not None and state.fact(src_var) == 'match'
            for i, e in enumerate(target.elts):
                state = self._assign(state, e, None)
                if known and isinstance(e, ast.Name) and e.id in self.match_vars and self.tuple_vars[src_var] == i:
                    state = state.with_fact(e.id, 'match')
            return state
        if not isinstance(target, ast.Name):
            return state
        name = target.id
        if name == self.idx:
            if aug is not None:
                ok = isinstance(aug, ast.Add) and isinstance(value, ast.Constant) and isinstance(value.value, int) \
                    and value.value > 0
                return LState(state.progress or ok, state.facts) if ok else LState(False, state.facts)
            # index = m.end(...) with m known truthy on this path
            if isinstance(value, ast.Call) and isinstance(value.func, ast.Attribute) and value.func.attr == 'end' \
                    and isinstance(value.func.value, ast.Name) and value.func.value.id in self.match_vars \
                    and state.fact(value.func.value.id) == 'match':
                return LState(True, state.facts)
            return LState(False, state.facts)
        if name in self.match_vars or state.fact(name) is not None:
            if isinstance(value, ast.Constant) and value.value is None:
                return state.with_fact(name, 'none')
            return state.with_fact(name, None)
        return state

    def stmt(self, state: LState, node: ast.stmt):
        if isinstance(node, ast.Assign):
            for t in node.targets:
                state = self._assign(state, t, node.value)
            return state
        if isinstance(node, ast.AnnAssign):
            return self._assign(state, node.target, node.value)
        if isinstance(node, ast.AugAssign):
            return self._assign(state, node.target, node.value, node.op)
        return state

    def for_header(self, state: LState, node: ast.For):
        return self._assign(state, node.target, None)

    def branch(self, state: LState, test: ast.expr):
        def known(name, truthy_state, falsy_state):
            f = state.fact(name)
            if f == 'match':
                return truthy_state, None
            if f == 'none':
                return None, falsy_state
            return truthy_state, falsy_state
        t = test
        neg = False
        while isinstance(t, ast.UnaryOp) and isinstance(t.op, ast.Not):
            neg = not neg
            t = t.operand
        res = None
        if isinstance(t, ast.Name) and t.id in self.match_vars:
            res = known(t.id, state.with_fact(t.id, 'match'), state.with_fact(t.id, 'none'))
        elif isinstance(t, ast.Compare) and len(t.ops) == 1 and isinstance(t.left, ast.Name) \
                and t.left.id in self.match_vars and isinstance(t.comparators[0], ast.Constant) \
                and t.comparators[0].value is None and isinstance(t.ops[0], (ast.Is, ast.IsNot, ast.Eq, ast.NotEq)):
            a, b = known(t.left.id, state.with_fact(t.left.id, 'match'), state.with_fact(t.left.id, 'none'))
            res = (b, a) if isinstance(t.ops[0], (ast.Is, ast.Eq)) else (a, b)
        if res is None:
            return state, state
        return (res[1], res[0]) if neg else res


@dataclass
class ScannerLoop:
    func: str
    node: ast.While
    idx: str
    bound: str | None
    match_vars: set
    match_calls: list          # (var, call node, function node the call lives in)
    bad_paths: list            # textual descriptions
    test_ok: bool


def helper_summary(helper: ast.FunctionDef, idx_pos: int):
    """A method `h(self, text, index)` that returns None or (a tuple holding) a match object of REGEX.match(text, index)
    that is known to be truthy where it is returned. Returns (position of the match in the tuple | None, match calls)."""
    params = [a.arg for a in helper.args.args]
    if params and params[0] in ('self', 'cls'):
        params = params[1:]
    if idx_pos >= len(params):
        return None
    hidx = params[idx_pos]
    calls = []
    for st in ast.walk(helper):
        if isinstance(st, ast.Assign) and len(st.targets) == 1 and isinstance(st.targets[0], ast.Name) \
                and isinstance(st.value, ast.Call) and isinstance(st.value.func, ast.Attribute) \
                and st.value.func.attr == 'match' and len(st.value.args) >= 2 \
                and isinstance(st.value.args[1], ast.Name) and st.value.args[1].id == hidx:
            calls.append((st.targets[0].id, st.value))
    if not calls or hidx in assigned_names(helper):
        return None
    mvars = {v for v, _ in calls}
    shapes = set()
    ok = [True]

    class D(ScanDomain):
        def on_return(self, state, node):
            v = node.value
            if v is None or (isinstance(v, ast.Constant) and v.value is None):
                return state
            if isinstance(v, ast.Name) and v.id in mvars:
                shapes.add(None)
                if state.fact(v.id) == 'none':
                    return state
                ok[0] = ok[0] and state.fact(v.id) == 'match'
                return state
            if isinstance(v, ast.Tuple):
                ks = [i for i, e in enumerate(v.elts) if isinstance(e, ast.Name) and e.id in mvars]
                if len(ks) == 1:
                    shapes.add(ks[0])
                    ok[0] = ok[0] and state.fact(v.elts[ks[0]].id) == 'match'
                    return state
            ok[0] = False
            return state
    Walker(D(hidx, mvars)).block(helper.body, {LState(False, frozenset())})
    if not ok[0] or len(shapes) != 1:
        return None
    return shapes.pop(), calls


def find_scanner_loops(mod, fn_qual: str, fn: ast.FunctionDef) -> list[ScannerLoop]:
    out = []
    for node in ast.walk(fn):
        if not isinstance(node, ast.While):
            continue
        test = node.test
        if not (isinstance(test, ast.Compare) and len(test.ops) == 1 and isinstance(test.left, ast.Name)
                and isinstance(test.ops[0], (ast.Lt, ast.LtE))):
            continue
        idx = test.left.id
        bound_expr = test.comparators[0]
        # match calls whose position argument is the index
        calls = []
        for st in ast.walk(node):
            if isinstance(st, ast.Assign) and len(st.targets) == 1 and isinstance(st.targets[0], ast.Name) \
                    and isinstance(st.value, ast.Call) and isinstance(st.value.func, ast.Attribute) \
                    and st.value.func.attr == 'match' and len(st.value.args) >= 2 \
                    and isinstance(st.value.args[1], ast.Name) and st.value.args[1].id == idx:
                calls.append((st.targets[0].id, st.value))
        tuple_vars = {}
        helper_calls = []
        for st in ast.walk(node):
            # token = self.helper(text, index): the helper returns None or a match / a tuple holding one
            if isinstance(st, ast.Assign) and len(st.targets) == 1 and isinstance(st.targets[0], ast.Name) \
                    and isinstance(st.value, ast.Call) and isinstance(st.value.func, ast.Attribute) \
                    and isinstance(st.value.func.value, ast.Name) and st.value.func.value.id in ('self', 'cls'):
                pos = [i for i, a in enumerate(st.value.args) if isinstance(a, ast.Name) and a.id == idx]
                cls = fn_qual.split('.')[-2] if fn_qual.count('.') >= 2 else None
                helper = mod.functions.get(f'{cls}.{st.value.func.attr}') if cls else None
                if len(pos) == 1 and helper is not None:
                    summ = helper_summary(helper, pos[0])
                    if summ is not None:
                        k, hcalls = summ
                        helper_calls.append((st.targets[0].id, k, hcalls, helper))
        for var, k, hcalls, helper in helper_calls:
            calls.extend((var if k is None else f'{var}[{k}]', c, helper) for _, c in hcalls)
            if k is not None:
                tuple_vars[var] = k
        if not calls:
            continue
        calls = [c if len(c) == 3 else (c[0], c[1], fn) for c in calls]
        match_vars = {v for v, _, _ in calls if '[' not in v} | {v for v, _, _, _ in helper_calls}
        # names unpacked from a helper result at the position of the match
        for st in ast.walk(node):
            if isinstance(st, ast.Assign) and isinstance(st.targets[0], (ast.Tuple, ast.List)) and isinstance(st.value, ast.Name) \
                    and st.value.id in tuple_vars and len(st.targets[0].elts) > tuple_vars[st.value.id] \
                    and isinstance(st.targets[0].elts[tuple_vars[st.value.id]], ast.Name):
                match_vars.add(st.targets[0].elts[tuple_vars[st.value.id]].id)
        bound_names = names_in(bound_expr)
        test_ok = not (bound_names & assigned_names(node)) and idx not in bound_names
        dom = ScanDomain(idx, match_vars, tuple_vars)
        w = Walker(dom)
        o = w.block(node.body, {LState(False, frozenset())})
        back = o.normal | o.cont
        bad = sorted({('index not advanced; known: ' + (', '.join(f'{k} is {v}' for k, v in sorted(s.facts)) or '-'))
                      for s in back if not s.progress})
        out.append(ScannerLoop(fn_qual, node, idx, unparse(bound_expr), match_vars, calls, bad, test_ok))
    return out


# ---- generic: paths that return to the loop head without touching any variable of the loop test -----------------
class TouchDomain(Domain):
    def __init__(self, names: set[str]):
        self.names = names

    def is_state(self, x):
        return isinstance(x, bool)

    def _touch(self, node: ast.AST) -> bool:
        for n in ast.walk(node):
            if isinstance(n, ast.Name) and n.id in self.names and isinstance(n.ctx, (ast.Store, ast.Del)):
                return True
            # a method call on / passing of a tested name may change what the test sees (next(it), x.pop())
            if isinstance(n, ast.Call):
                for a in ast.walk(n):
                    if isinstance(a, ast.Name) and a.id in self.names:
                        return True
                if isinstance(n.func, ast.Name) and n.func.id == 'next':
                    return True
            if isinstance(n, (ast.Yield, ast.YieldFrom, ast.Await)):
                return True
        return False

    def stmt(self, state, node):
        return state or self._touch(node)

    def for_header(self, state, node):
        return state or self._touch(node.target) or self._touch(node.iter)

    def branch(self, state, test):
        s = state or self._touch(test)
        return s, s

    def enter_with(self, state, node):
        return state or any(self._touch(i) for i in node.items)


def stuck_paths(node: ast.While) -> bool:
    """True if some path from the head back to the head touches no name of the loop test (test must be pure)."""
    names = names_in(node.test)
    if not names:
        # `while True:` - must leave through break/return/raise, or a call that can raise (next(), yield)
        names = set()
    # attribute-based tests (self.x) are out of scope of this rule
    if any(isinstance(n, ast.Attribute) for n in ast.walk(node.test)) and not names - {'self'}:
        return False
    if any(isinstance(n, ast.Call) for n in ast.walk(node.test)):
        return False
    dom = TouchDomain(names)
    w = Walker(dom)
    o = w.block(node.body, {False})
    back = o.normal | o.cont
    return any(s is False for s in back)
