"""Claim table API shared by sa.registry and sa.claims."""
from __future__ import annotations

# pid -> dict(claimed, text, note, technique, design_ref) ; unclaimed: reason
PROPS: dict[str, dict] = {}


def claim(pid: str, text: str, note: str, technique: str) -> None:
    PROPS[pid] = {'claimed': True, 'text': text, 'note': note, 'technique': technique}


def decline(pid: str, reason: str) -> None:
    PROPS[pid] = {'claimed': False, 'reason': reason}


ALL_IDS = [f'C{i:02d}' for i in range(1, 21)]
for _p in ALL_IDS:
    decline(_p, 'rule pack not built yet in this round (see DESIGN.md section 2 for the planned decided clauses)')


