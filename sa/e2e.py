"""Compiling concrete selector text by interpretation: the package's own tokenizer and parser (CSSParser.__init__,
process_selectors, selector_iter, parse_selectors and every handler) are run by the analyser's evaluator (sa.interp); the
package's regexes are applied by the analyser's own matcher over their parse trees (sa.rematch).  Nothing of soupsieve is
imported or executed by CPython.

The result is a plain-data image of the compiled structure (every field of every css_types class), so that two selector
texts can be compared structurally: the tables built on this module are metamorphic - "these two spellings must compile to the
same structure", "the list `A, B` is the concatenation of the lists `A` and `B`", "escape(s) read back as an identifier is s" -
and are bounded in the texts they enumerate (a failing row is a genuine counterexample, a clean table is not a proof).
"""
from __future__ import annotations

from .core import AnalysisError
from .interp import Obj, Raised, call_function
from .miniev import Unsupported


class Outcome:
    """What compiling a text does: `ir` (plain data) or `raises` (exception class name, message, position fields)."""
    def __init__(self, ir=None, raises=None, message=None, extra=None):
        self.ir, self.raises, self.message, self.extra = ir, raises, message, extra or {}

    def __eq__(self, other):
        return isinstance(other, Outcome) and (self.ir, self.raises) == (other.ir, other.raises)

    def __repr__(self):
        return f'raises {self.raises}' if self.raises else f'IR{self.ir!r}'

    def brief(self, n=160):
        t = repr(self)
        return t if len(t) <= n else t[:n] + '...'


def _cls(o):
    return object.__getattribute__(o, '_cls') if isinstance(o, Obj) else None


def describe(o, depth=0):
    """Plain-data image of a compiled structure (recursive over css_types objects, tuples, patterns)."""
    if depth > 40:
        raise AnalysisError('compiled structure nested deeper than 40 levels')
    if o is None or isinstance(o, (str, int, bool, float)):
        return o
    if isinstance(o, (tuple, list)):
        return tuple(describe(x, depth + 1) for x in o)
    if isinstance(o, dict):
        return tuple(sorted((describe(k, depth + 1), describe(v, depth + 1)) for k, v in o.items()))
    if isinstance(o, Obj):
        if o.has('__const__'):
            return ('const', o.get('__const__'))
        if o.has('__isa__') and 're.Pattern' in (o.get('__isa__') or ()):
            return ('re', o.get('pattern'), int(o.get('flags') or 0))
        cq = _cls(o)
        if cq and cq.startswith('css_types.'):
            fields = object.__getattribute__(o, '_fields')
            return (cq.split('.')[1],) + tuple((k, describe(v, depth + 1)) for k, v in sorted(fields.items())
                                               if not k.startswith('_') and not callable(v))
        return ('obj', repr(o))
    return ('value', repr(o))


def compile_text(ctx, text: str, flags: int = 0, custom=None, cache=True) -> Outcome:
    """CSSParser(text, custom, flags).process_selectors() by interpretation."""
    key = ('e2e', text, flags, repr(sorted(custom.items())) if custom else None)
    if cache and key in ctx._cache:
        return ctx._cache[key]
    from .props.sem import strict_lower
    me = Obj(_cls='css_parser.CSSParser', _name='parser')
    opts = {'regex_engine': True, 'real_immutable': True, 'max_depth': 120, 'persist': ctx._cache.setdefault('e2e-persist', {})}
    stubs = {'util.lower': strict_lower}
    try:
        call_function(ctx, 'css_parser.CSSParser.__init__', [text, custom, flags], {}, stubs, me, opts)
        res = call_function(ctx, 'css_parser.CSSParser.process_selectors', [], {}, stubs, me, opts)
        out = Outcome(ir=describe(res))
    except Raised as e:
        msg = e.args_[0] if getattr(e, 'args_', None) and isinstance(e.args_[0], str) else None
        out = Outcome(raises=e.exc_name, message=msg, extra={'args': tuple(a for a in (getattr(e, 'args_', None) or ()) if isinstance(a, (str, int)))})
    except RecursionError:
        raise AnalysisError(f'compiling {text!r}: the evaluator ran out of stack')
    except Unsupported as e:
        raise AnalysisError(f'compiling {text!r}: outside the evaluable fragment: {e}')
    if cache:
        ctx._cache[key] = out
    return out


def alternatives(ir):
    """The alternatives of a compiled SelectorList image (tuple), or None."""
    if isinstance(ir, tuple) and ir and ir[0] == 'SelectorList':
        d = dict(ir[1:])
        return d.get('selectors')
    return None


def list_fact(ir, name):
    if isinstance(ir, tuple) and ir and ir[0] == 'SelectorList':
        return dict(ir[1:]).get(name)
    return None
