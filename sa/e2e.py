"""Compiling concrete selector text by interpretation: the package's own tokenizer and parser (CSSParser.__init__,
process_selectors, selector_iter, parse_selectors and every handler) are run by the analyser's evaluator (sa.interp); the
package's regexes are applied by the analyser's own matcher over their parse trees (sa.rematch).  Nothing of soupsieve is
imported or executed by CPython.

The result is a plain-data image of the compiled structure (every field of every css_types class), so that two selector
texts can be compared structurally: the tables built on this module are metamorphic - "these two spellings must compile to the
same structure", "the list `A, B` is the concatenation of the lists `A` and `B`", "escape(s) read back as an identifier is s" -
and are bounded in the texts they enumerate (a failing row is a genuine counterexample, a clean table is not a proof).
"""
from __future__ import annotations

import sys

from .core import AnalysisError
from .interp import Obj, Raised, call_function
from .miniev import Unsupported

if sys.getrecursionlimit() < 12000:
    sys.setrecursionlimit(12000)      # the evaluator recurses once per nested expression of the interpreted program


class Outcome:
    """What compiling a text does: `ir` (plain data) or `raises` (exception class name, message, position fields)."""
    def __init__(self, ir=None, raises=None, message=None, extra=None):
        self.ir, self.raises, self.message, self.extra = ir, raises, message, extra or {}

    def __eq__(self, other):
        return isinstance(other, Outcome) and (self.ir, self.raises) == (other.ir, other.raises)

    def __repr__(self):
        return f'raises {self.raises}' if self.raises else f'IR{self.ir!r}'

    def brief(self, n=160):
        t = repr(self)
        return t if len(t) <= n else t[:n] + '...'


def _cls(o):
    return object.__getattribute__(o, '_cls') if isinstance(o, Obj) else None


def describe(o, depth=0):
    """Plain-data image of a compiled structure (recursive over css_types objects, tuples, patterns)."""
    if depth > 40:
        raise AnalysisError('compiled structure nested deeper than 40 levels')
    if o is None or isinstance(o, (str, int, bool, float)):
        return o
    if isinstance(o, (tuple, list)):
        return tuple(describe(x, depth + 1) for x in o)
    if isinstance(o, dict):
        return tuple(sorted((describe(k, depth + 1), describe(v, depth + 1)) for k, v in o.items()))
    if isinstance(o, Obj):
        if o.has('__const__'):
            return ('const', o.get('__const__'))
        if o.has('__isa__') and 're.Pattern' in (o.get('__isa__') or ()):
            return ('re', o.get('pattern'), int(o.get('flags') or 0))
        cq = _cls(o)
        if cq and cq.startswith('css_types.'):
            fields = object.__getattribute__(o, '_fields')
            return (cq.split('.')[1],) + tuple((k, describe(v, depth + 1)) for k, v in sorted(fields.items())
                                               if not k.startswith('_') and not callable(v))
        return ('obj', repr(o))
    return ('value', repr(o))


def compile_text(ctx, text: str, flags: int = 0, custom=None, cache=True, persist=None) -> Outcome:
    """CSSParser(text, custom, flags).process_selectors() by interpretation."""
    key = ('e2e', text, flags, repr(sorted(custom.items())) if custom else None)
    cache = cache and persist is None
    if cache and key in ctx._cache:
        return ctx._cache[key]
    from .props.sem import strict_lower
    me = Obj(_cls='css_parser.CSSParser', _name='parser')
    opts = {'regex_engine': True, 'real_immutable': True, 'max_depth': 120, 'persist': persist if persist is not None else ctx._cache.setdefault('e2e-persist', {})}
    stubs = {'util.lower': strict_lower}
    deep_retry, levels = False, 0
    for attempt in (0, 1, 2):
        try:
            # the custom map goes through process_custom, as in compile(): names are validated and a fresh table is built
            table = call_function(ctx, 'css_parser.process_custom', [dict(custom)], {}, stubs, None, opts) if custom is not None else None
            call_function(ctx, 'css_parser.CSSParser.__init__', [text, table, flags], {}, stubs, me, opts)
            res = call_function(ctx, 'css_parser.CSSParser.process_selectors', [], {}, stubs, me, opts)
            out = Outcome(ir=describe(res))
        except Raised as e:
            msg = e.args_[0] if getattr(e, 'args_', None) and isinstance(e.args_[0], str) else None
            out = Outcome(raises=e.exc_name, message=msg, extra={'args': tuple(a for a in (getattr(e, 'args_', None) or ()) if isinstance(a, (str, int)))})
        except RecursionError:
            if deep_retry:
                out = Outcome(raises='RecursionError', message=f'the call depth of the interpreted parser passed {opts["max_depth"]} frames for '
                              f'{levels} nesting level(s) of the input (brackets + custom definitions): the recursion does not end with the input')
                break
            raise AnalysisError(f'compiling {text!r}: the evaluator ran out of stack')
        except Unsupported as e:
            if 'call depth exceeded' in str(e) and custom:
                # nesting that the input itself asks for is bounded by its brackets and by the custom definitions (each expanded at
                # most once on a path); a call depth far beyond that (>= 30 frames per level, the parser needs about 5) is recursion
                # that does not end with the input - what the interpreter of the real program reports as RecursionError
                levels = 1 + text.count('(') + sum(str(v).count('(') for v in custom.values()) + len(custom)
                if deep_retry:
                    out = Outcome(raises='RecursionError', message=f'the call depth of the interpreted parser passed {opts["max_depth"]} frames for '
                                  f'{levels} nesting level(s) of the input (brackets + custom definitions): the recursion does not end with the input')
                    break
                if 400 >= 30 * levels:
                    deep_retry = True
                    opts = dict(opts, max_depth=400)
                    me = Obj(_cls='css_parser.CSSParser', _name='parser')
                    continue
            if 'loop bound exceeded' in str(e) and len(text) < 200:
                if "loop_cap" not in opts:
                    opts = dict(opts, loop_cap=DIVERGENCE_BOUND, max_steps=20_000_000)
                    me = Obj(_cls='css_parser.CSSParser', _name='parser')
                    continue
                out = Outcome(raises='(no result)', message=f'one `while` loop ran more than {DIVERGENCE_BOUND} iterations: {e}')
                break
            raise AnalysisError(f'compiling {text!r}: outside the evaluable fragment: {e}')
        break
    if cache:
        ctx._cache[key] = out
    return out


def alternatives(ir):
    """The alternatives of a compiled SelectorList image (tuple), or None."""
    if isinstance(ir, tuple) and ir and ir[0] == 'SelectorList':
        d = dict(ir[1:])
        return d.get('selectors')
    return None


def list_fact(ir, name):
    if isinstance(ir, tuple) and ir and ir[0] == 'SelectorList':
        return dict(ir[1:]).get(name)
    return None


# ---- the public API by interpretation ------------------------------------------------------------------------------------------
XHTML_NS = 'http://www.w3.org/1999/xhtml'
KINDS = {
    # kind -> (is_xml flag of every node, namespace of elements)
    'html': (False, None),            # html.parser
    'html5': (False, XHTML_NS),       # html5lib / lxml HTML: elements carry the XHTML namespace, the tree is not XML
    'xhtml': (True, XHTML_NS),        # lxml-xml, root in the XHTML namespace
    'xml': (True, None),              # lxml-xml, no namespace
}


DIVERGENCE_BOUND = 50_000


def make_doc(spec, kind='html'):
    """(document object, nodes in document order, labels) for a tree specification (see sa.tables.build_tree)."""
    from .tables import build_tree
    is_xml, ns = KINDS[kind]
    return build_tree(spec, is_xml=is_xml, namespace=ns)


def api(ctx, fn: str, *args, **kwargs):
    """soupsieve.<fn>(*args, **kwargs) by interpretation of the package source: ('ok', value) or ('raises', exception name).
    Lists / iterators of nodes are returned as Python lists of the abstract nodes."""
    from .props.sem import strict_lower
    opts = {'regex_engine': True, 'real_immutable': True, 'max_depth': 250, 'no_const_shortcut': True, 'max_steps': 5_000_000,
            'persist': ctx._cache.setdefault('e2e-persist-real', {})}
    for attempt in (0, 1):
        try:
            r = call_function(ctx, f'__init__.{fn}', list(args), dict(kwargs), {'util.lower': strict_lower}, None, opts)
            if fn == 'iselect' or (r is not None and not isinstance(r, (Obj, str, int, bool, list, tuple, dict))):
                r = list(r)
            return ('ok', r)
        except Raised as e:
            return ('raises', e.exc_name)
        except RecursionError:
            raise AnalysisError(f'soupsieve.{fn}{args[:1]!r}: the evaluator ran out of stack')
        except Unsupported as e:
            if 'loop bound exceeded' in str(e):
                if attempt == 0:
                    # the working bound of 200 iterations per `while` is a guard of the evaluator, not a fact about the code: once
                    # more with a bound no loop of the package comes near on the small inputs of the tables
                    opts = dict(opts, loop_cap=DIVERGENCE_BOUND, max_steps=20_000_000)
                    continue
                return ('diverges', f'one `while` loop ran more than {DIVERGENCE_BOUND} iterations: {e}')
            raise AnalysisError(f'soupsieve.{fn}({args[0]!r}, ...): outside the evaluable fragment: {e}')


def label(n):
    from .tables import TextNode
    if n is None:
        return None
    if isinstance(n, TextNode):
        return repr(str(n))[:16]
    return object.__getattribute__(n, '_name') if isinstance(n, Obj) else repr(n)


def elements(order):
    from .tables import TextNode
    return [n for n in order if not isinstance(n, TextNode)]


# ---- batches of API calls on worker processes ---------------------------------------------------------------------------------
_BATCH: dict = {}


def _batch_one(req):
    ctx, docs = _BATCH['ctx'], _BATCH['docs']
    doc_key, fn, sel, target, kw = req
    doc, order, index = docs[doc_key]
    if isinstance(target, tuple) and target and target[0] == 'iter':
        tgt = iter([order[i] for i in target[1]])          # a one-shot iterable (generator, tag.children, map(...))
    else:
        tgt = doc if target is None else ([order[i] for i in target] if isinstance(target, (list, tuple)) else order[target])
    try:
        st, r = api(ctx, fn, sel, tgt, **dict(kw))
    except AnalysisError as e:
        return ('analysis-error', str(e))

    def enc(x):
        if x is doc:
            return -1
        return index.get(id(x), repr(x)) if x is not None else None
    if st != 'ok':
        return (st, r)
    if isinstance(r, list):
        return ('ok', [enc(x) for x in r])
    if isinstance(r, bool) or r is None:
        return ('ok', r)
    return ('ok', enc(r))


def batch_api(ctx, docs: dict, requests: list, jobs: int | None = None):
    """Run API calls in parallel.  docs: key -> (doc, order) as returned by make_doc; a request is
    (doc key, function, selector, target: None = the document | index into order | list of indices, ((kwarg, value), ...)).
    Nodes in results are encoded as indices into `order` (-1 = the document object)."""
    import multiprocessing
    import os
    _BATCH['ctx'] = ctx
    _BATCH['docs'] = {k: (d, o, {id(n): i for i, n in enumerate(o)}) for k, (d, o) in docs.items()}
    jobs = jobs or int(os.environ.get('SA_JOBS', '0')) or min(12, os.cpu_count() or 1)
    # warm the caches that every worker would otherwise rebuild (module-level tables, compiled constants, regex parse trees)
    if requests:
        _batch_one(requests[0])
    if jobs <= 1 or len(requests) < 8:
        out = [_batch_one(r) for r in requests]
    else:
        with multiprocessing.get_context('fork').Pool(jobs) as pool:
            out = pool.map(_batch_one, requests, chunksize=max(1, len(requests) // (jobs * 4)))
    for r in out:
        if r[0] == 'analysis-error':
            raise AnalysisError(r[1])
    return out


def _compile_one(req):
    text, flags, custom = req
    try:
        return compile_text(_BATCH['ctx'], text, flags, dict(custom) if custom is not None else None, cache=False)
    except AnalysisError as e:
        return ('analysis-error', str(e))


def prefetch(ctx, texts, flags: int = 0, custom=None, jobs: int | None = None):
    """Compile many texts on worker processes and put the outcomes into the cache compile_text() reads."""
    import multiprocessing
    import os
    todo = []
    for t in dict.fromkeys(texts):
        key = ('e2e', t, flags, repr(sorted(custom.items())) if custom else None)
        if key not in ctx._cache:
            todo.append((key, (t, flags, tuple(sorted(custom.items())) if custom else None)))
    if not todo:
        return
    _BATCH['ctx'] = ctx
    compile_text(ctx, 'a')            # warm the shared tables before forking
    jobs = jobs or int(os.environ.get('SA_JOBS', '0')) or min(12, os.cpu_count() or 1)
    if jobs <= 1 or len(todo) < 16:
        outs = [_compile_one(r) for _, r in todo]
    else:
        with multiprocessing.get_context('fork').Pool(jobs) as pool:
            outs = pool.map(_compile_one, [r for _, r in todo], chunksize=max(1, len(todo) // (jobs * 4)))
    for (key, _), o in zip(todo, outs):
        if isinstance(o, tuple) and o and o[0] == 'analysis-error':
            raise AnalysisError(o[1])
        ctx._cache[key] = o
